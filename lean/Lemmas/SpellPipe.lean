/-
Lemmas.SpellPipe — A3: re-spelling lifted through `Proxy.Model`, stage by stage up to `step`.

For two messages that are re-spellings of one another w.r.t. the pipeline's eleven lookup keys
(`PipeClasses`) every function of the pipeline returns EQUAL states / hops / identifiers, re-spelled
messages, and outputs with the same destination whose payloads are the serialisations of re-spelled
messages (hence equal byte strings up to the spelling of header names, `Lemmas.bytes_respelled`).
Holds for ANY compact-name map: no sanity hypothesis is needed here, it is only needed to show
that a concrete pair of names is a re-spelling (`Lemmas.Spell`, A4).

The lift itself is generic (`Lemmas.PipeRel`: any relation respected by the primitive header
operations); this file provides the instance (`pipeRel_respelled`, from the A1 lemmas of
`Lemmas.Spell`) and restates the stage theorems for it.
-/
import Proxy.Model
import Lemmas.Spell
import Lemmas.PipeRel
open GoStd Sip Proxy

namespace Lemmas

/-! ### re-spelling is respected by the primitive header operations -/

theorem pipeRel_respelled (cm : List (Bytes × Bytes)) : PipeRel (MsgRespelled cm PipeClasses) cm where
  start H := H.start
  getVia H := by
    rcases getVia_respelled cm PipeClasses H pc_via with h | ⟨v, m1, m1', h1, h2, H1⟩
    · exact Or.inl h
    · exact Or.inr ⟨v, v, m1, m1', h1, h2, rfl, H1⟩
  getRoute H := by
    rcases getRoute_respelled cm PipeClasses H pc_route with h | ⟨v, m1, m1', h1, h2, H1⟩
    · exact Or.inl h
    · exact Or.inr ⟨v, v, m1, m1', h1, h2, rfl, H1⟩
  getFrom H := getFrom_respelledMsg cm PipeClasses H pc_from
  getTo H := getTo_respelledMsg cm PipeClasses H pc_to
  getCSeq H := getCSeq_respelled cm PipeClasses H pc_cseq
  rawCallId H := getRawHeader_respelledMsg cm PipeClasses H pc_callId
  rawExpires H := getRawHeader_respelledMsg cm PipeClasses H pc_expires
  rawSubst H := getRawHeader_respelledMsg cm PipeClasses H pc_subscriptionState
  popVia H := popVia_respelled cm PipeClasses H pc_via
  popRoute H := popRoute_respelled cm PipeClasses H pc_route
  setReceived H ip port := setReceived_respelled cm PipeClasses H pc_via ip port
  addVia H vp := addVia_respelled cm PipeClasses H pc_via vp
  addRecordRoute H rr := addRecordRoute_respelled cm PipeClasses H pc_recordRoute pc_from pc_maxForwards rr
  rrPresent H := findHeader_isSome_respelled cm PipeClasses H.headers pc_recordRoute
  forEachVia H :=
    ⟨(forEachViaHeaders_respelled cm PipeClasses H.headers pc_via).2,
     H.withHeaders cm PipeClasses (forEachViaHeaders_respelled cm PipeClasses H.headers pc_via).1⟩


/-- re-spelled w.r.t. all lookup keys of the pipeline -/
abbrev MR (cfg : Cfg) (m m' : Message) : Prop := MsgRespelled cfg.cm PipeClasses m m'

/-- two payloads: serialisations of re-spelled messages -/
abbrev DataRel (cfg : Cfg) (d d' : Bytes) : Prop := DataRelG (MR cfg) cfg d d'

/-- same destination (`Out.dest`), payloads related -/
abbrev OutRel (cfg : Cfg) (o o' : Out) : Prop := OutRelG (MR cfg) cfg o o'

/-- output lists related position by position -/
abbrev OutsRel (cfg : Cfg) (l l' : List Out) : Prop := OutsRelG (MR cfg) cfg l l'

/-- results of the sending functions: equal states, related outputs -/
abbrev SR (cfg : Cfg) (r r' : St × List Out) : Prop := SRG (MR cfg) cfg r r'

/-- results that carry a state (or any other value) and a message: equal values, re-spelled messages -/
abbrev TR (cfg : Cfg) {α : Type} (r r' : α × Message) : Prop := PRel (MR cfg) r r'

/-- two receive events that differ only in the spelling of the header names of their messages -/
abbrev EvRespelled (cfg : Cfg) (ev ev' : RawEv) : Prop := EvRel (MR cfg) ev ev'

theorem EvRespelled.of_msg (cfg : Cfg) (ev : RawEv) {m' : Message} (H : MR cfg ev.msg m') :
    EvRespelled cfg ev { ev with msg := m' } := EvRel.of_msg ev H

/-- the payloads are equal up to the spelling of header names -/
theorem dataRel_bytes {cfg : Cfg} {d d' : Bytes} (h : DataRel cfg d d') : BytesRespelled cfg.cm PipeClasses d d' := by
  obtain ⟨m, m', rfl, rfl, H⟩ := h
  exact bytes_respelled cfg.cm PipeClasses H pc_contentLength

section
variable (cfg : Cfg) {m m' : Message} {ev ev' : RawEv}

theorem getNextResponseHop_respelled (H : MR cfg m m') : TR cfg (getNextResponseHop cfg m) (getNextResponseHop cfg m') :=
  getNextResponseHop_rel cfg (pipeRel_respelled cfg.cm) H

theorem getNextRequestHopByRoute_respelled (H : MR cfg m m') :
    TR cfg (getNextRequestHopByRoute cfg m) (getNextRequestHopByRoute cfg m') :=
  getNextRequestHopByRoute_rel cfg (pipeRel_respelled cfg.cm) H

theorem getNextRequestHopByConfig_respelled (H : MR cfg m m') :
    TR cfg (getNextRequestHopByConfig cfg m) (getNextRequestHopByConfig cfg m') :=
  getNextRequestHopByConfig_rel cfg (pipeRel_respelled cfg.cm) H

theorem getNextRequestHop_respelled (H : MR cfg m m') : TR cfg (getNextRequestHop cfg m) (getNextRequestHop cfg m') :=
  getNextRequestHop_rel cfg (pipeRel_respelled cfg.cm) H

theorem insertSelf_respelled (H : MR cfg m m') (t : Listener) (br : Bytes) :
    MR cfg (insertSelf cfg m t br) (insertSelf cfg m' t br) :=
  insertSelf_rel cfg (pipeRel_respelled cfg.cm) H t br

theorem sendMessage_respelled (H : MR cfg m m') (st : St) (h : Hop) :
    SR cfg (sendMessage cfg st h m) (sendMessage cfg st h m') :=
  sendMessage_rel cfg (pipeRel_respelled cfg.cm) H st h

theorem findBackendByDialog_respelled (H : MR cfg m m') (st : St) :
    (findBackendByDialog cfg st m).1 = (findBackendByDialog cfg st m').1 ∧
    (findBackendByDialog cfg st m).2.1 = (findBackendByDialog cfg st m').2.1 ∧
    MR cfg (findBackendByDialog cfg st m).2.2 (findBackendByDialog cfg st m').2.2 :=
  findBackendByDialog_rel cfg (pipeRel_respelled cfg.cm) H st

theorem sendToBackend_respelled (H : MR cfg m m') (st : St) (br : Bytes) :
    SR cfg (sendToBackend cfg st m br) (sendToBackend cfg st m' br) :=
  sendToBackend_rel cfg (pipeRel_respelled cfg.cm) H st br

theorem rawLearn_respelled (E : EvRespelled cfg ev ev') (st : St) :
    TR cfg (rawLearn cfg st ev) (rawLearn cfg st ev') :=
  rawLearn_rel cfg (pipeRel_respelled cfg.cm) E st

theorem rawStamp_respelled (E : EvRespelled cfg ev ev') {m1 m1' : Message} (H1 : MR cfg m1 m1') :
    MR cfg (rawStamp cfg ev m1) (rawStamp cfg ev' m1') :=
  rawStamp_rel cfg (pipeRel_respelled cfg.cm) E H1

theorem rawConn_respelled (E : EvRespelled cfg ev ev') {m2 m2' : Message} (H2 : MR cfg m2 m2') (st : St) :
    TR cfg (rawConn cfg st ev m2) (rawConn cfg st ev' m2') :=
  rawConn_rel cfg (pipeRel_respelled cfg.cm) E H2 st

theorem rawOwnRoute_respelled (E : EvRespelled cfg ev ev') {m3 m3' : Message} (H3 : MR cfg m3 m3') :
    MR cfg (rawOwnRoute cfg ev m3) (rawOwnRoute cfg ev' m3') :=
  rawOwnRoute_rel cfg (pipeRel_respelled cfg.cm) E H3

theorem handleRawMessage_respelled (E : EvRespelled cfg ev ev') (st : St) :
    TR cfg (handleRawMessage cfg st ev) (handleRawMessage cfg st ev') :=
  handleRawMessage_rel cfg (pipeRel_respelled cfg.cm) E st

theorem handleDialog_respelled (H : MR cfg m m') (st : St) (a : Bytes) (p : Int) :
    TR cfg (handleDialog cfg st a p m) (handleDialog cfg st a p m') :=
  handleDialog_rel cfg (pipeRel_respelled cfg.cm) H st a p

theorem handleMessage_respelled (E : EvRespelled cfg ev ev') (H : MR cfg m m') (st : St) :
    SR cfg (handleMessage cfg st ev m) (handleMessage cfg st ev' m') :=
  handleMessage_rel cfg (pipeRel_respelled cfg.cm) E H st

/-- one `step` of the receive loop -/
theorem step_respelled (E : EvRespelled cfg ev ev') (st : St) : SR cfg (step cfg st ev) (step cfg st ev') :=
  step_rel cfg (pipeRel_respelled cfg.cm) E st

end

/-! ### non-vacuity: the fixtures of `Lemmas.Pipe`, re-spelled

`exMsgSp` (request, `Lemmas.Spell`) and `exRespSp` (response) are re-spellings of `exMsg` / `exResp`;
both pairs of events are really processed (one packet each), so every `*_respelled` theorem of this
file has a non-trivial instance. -/

section Examples

/-- `exResp` spelled `v VIA cseq` instead of `Via v CSeq` -/
def exRespSp : Message :=
  { exResp with headers :=
      [ { name := str "v", value := .raw (str "SIP/2.0/UDP 10.0.0.1:5060;branch=z9hG4bKabc") },
        { name := str "VIA", value := .raw (str "SIP/2.0/UDP a:5070;received=10.0.0.7;rport=4444;branch=z1, SIP/2.0/TCP b") },
        { name := str "cseq", value := .raw (str "1 INVITE") } ] }

theorem exMsg_MR : MR exCfg exMsg exMsgSp := exMsg_respelled

theorem exResp_MR : MR exCfg exResp exRespSp :=
  ⟨rfl, rfl, respelledList_of_check _ _ _ (by decide +kernel)⟩

theorem exEv_respelled_req : EvRespelled exCfg (exEv exMsg) (exEv exMsgSp) := EvRespelled.of_msg exCfg (exEv exMsg) exMsg_MR
theorem exEv_respelled_resp : EvRespelled exCfg (exEv exResp) (exEv exRespSp) := EvRespelled.of_msg exCfg (exEv exResp) exResp_MR

example := step_respelled exCfg exEv_respelled_req exSt
example := step_respelled exCfg exEv_respelled_resp exSt
example := handleRawMessage_respelled exCfg exEv_respelled_req exSt
example := handleDialog_respelled exCfg exResp_MR exSt (str "10.0.0.7") 4444
example := sendToBackend_respelled exCfg exMsg_MR exSt (str "z9hG4bKabc")

/-- the re-spelled events are really processed: one relayed packet each, to the same destination,
with different bytes -/
example : (step exCfg exSt (exEv exMsgSp)).2.length = 1 ∧ (step exCfg exSt (exEv exRespSp)).2.length = 1 ∧
    (step exCfg exSt (exEv exMsg)).2.map Out.dest = (step exCfg exSt (exEv exMsgSp)).2.map Out.dest ∧
    (step exCfg exSt (exEv exMsg)).2 ≠ (step exCfg exSt (exEv exMsgSp)).2 := by decide +kernel

/-- a request over an inbound TCP connection (stage 3) and one that goes to the backend -/
example := rawConn_respelled exCfg (EvRespelled.of_msg exCfg { exEv exMsg with tcpConn := some 3 } exMsg_MR) exMsg_MR exSt

end Examples

end Lemmas
