/-
Lemmas.Pipe — how the steps of the per-message pipeline (`Proxy.Model`) act on the routing stacks.

Tool: the *class view* of a header list (its sub-list of headers of one name class). Every stack,
and everything a typed getter reads, is a function of the view of its class; every operation of the
pipeline leaves the views of all classes disjoint from the ones it works on untouched.
`Disj cm a b` (no name is in both classes) is always an explicit hypothesis; section `RealMap`
discharges all instances needed for the generated table.
-/
import Proxy.Model
import Lemmas.Abs
open GoStd Sip Proxy

namespace Lemmas

/-- the name classes `a` and `b` do not overlap -/
def Disj (cm : List (Bytes × Bytes)) (a b : Bytes) : Prop :=
  ∀ x, isSameHeader cm x a = true → isSameHeader cm x b = false

theorem Disj.symm {cm : List (Bytes × Bytes)} {a b : Bytes} (h : Disj cm a b) : Disj cm b a := disjoint_symm h

/-- the headers of class `n`, in order -/
def classView (cm : List (Bytes × Bytes)) (n : Bytes) (hs : List Header) : List Header :=
  hs.filter (fun h => isSameHeader cm h.name n)

section View
variable (cm : List (Bytes × Bytes))

theorem stackOf_of_view {α : Type} (n : Bytes) (dec : HVal → List α) {hs hs' : List Header}
    (h : classView cm n hs' = classView cm n hs) : stackOf cm n dec hs' = stackOf cm n dec hs := by
  rw [stackOf_eq_flatMap, stackOf_eq_flatMap]
  simp only [classView] at h
  rw [h]

theorem findHeader_of_view (n : Bytes) {hs hs' : List Header}
    (h : classView cm n hs' = classView cm n hs) : findHeader cm hs' n = findHeader cm hs n := by
  simp only [findHeader, ← List.head?_filter]
  simp only [classView] at h
  rw [h]

theorem classView_append (n : Bytes) (a b : List Header) :
    classView cm n (a ++ b) = classView cm n a ++ classView cm n b := by
  simp [classView]

theorem classView_setFirst_other {a n : Bytes} (hd : Disj cm a n) (hs : List Header) (v : HVal) :
    classView cm n (setFirst cm hs a v) = classView cm n hs := by
  induction hs with
  | nil => rfl
  | cons x xs ih =>
    simp only [classView] at ih
    cases hx : isSameHeader cm x.name a with
    | true => simp [classView, setFirst, hx, hd x.name hx]
    | false => simp [classView, setFirst, hx, List.filter_cons, ih]

theorem classView_removeHeader_other {a n : Bytes} (hd : Disj cm a n) (hs : List Header) :
    classView cm n (removeHeader cm hs a) = classView cm n hs := by
  induction hs with
  | nil => rfl
  | cons x xs ih =>
    simp only [classView] at ih
    cases hx : isSameHeader cm x.name a with
    | true => simp [classView, removeHeader, hx, hd x.name hx]
    | false => simp [classView, removeHeader, hx, List.filter_cons, ih]

theorem classView_insertAt_other {n : Bytes} (hs : List Header) (p : Nat) (x : Header)
    (hx : isSameHeader cm x.name n = false) :
    classView cm n (insertAt hs p x) = classView cm n hs := by
  simp only [insertAt, classView, List.filter_append, List.filter_cons, hx]
  simp only [Bool.false_eq_true, ↓reduceIte]
  rw [← List.filter_append, List.take_append_drop]

/-! ### what the getters read depends on the view of their class only -/

theorem getVia_fst_of_view {m m' : Message}
    (h : classView cm viaName m'.headers = classView cm viaName m.headers) :
    (getVia cm m').map Prod.fst = (getVia cm m).map Prod.fst := by
  have hf := findHeader_of_view cm viaName h
  unfold getVia
  rw [hf]
  cases findHeader cm m.headers viaName with
  | none => rfl
  | some hd =>
    simp only []
    cases hd.value with
    | raw s => simp only []; cases parseVia s <;> rfl
    | _ => rfl

theorem getRoute_fst_of_view {m m' : Message}
    (h : classView cm routeName m'.headers = classView cm routeName m.headers) :
    (getRoute cm m').map Prod.fst = (getRoute cm m).map Prod.fst := by
  have hf := findHeader_of_view cm routeName h
  unfold getRoute
  rw [hf]
  cases findHeader cm m.headers routeName with
  | none => rfl
  | some hd =>
    simp only []
    cases hd.value with
    | raw s => simp only []; cases parseRoute s <;> rfl
    | _ => rfl

/-! ### the other lazy getters only write into the first header of their class -/

theorem getFrom_some {m m' : Message} {f : FromTo} (h : getFrom cm m = some (f, m')) :
    m' = { m with headers := setFirst cm m.headers fromName (.fromSpec f) } := by
  unfold getFrom at h
  split at h
  · cases h
  · rename_i hd hf
    split at h
    · rename_i v0 hv
      simp only [Option.some.injEq, Prod.mk.injEq] at h
      obtain ⟨rfl, rfl⟩ := h
      have := setFirst_self cm fromName m.headers hd hf
      rw [hv] at this
      rw [this]
    · split at h
      · cases h
      · simp only [Option.some.injEq, Prod.mk.injEq] at h
        obtain ⟨rfl, rfl⟩ := h
        rfl
    · cases h

theorem getTo_some {m m' : Message} {f : FromTo} (h : getTo cm m = some (f, m')) :
    m' = { m with headers := setFirst cm m.headers toName (.to f) } := by
  unfold getTo at h
  split at h
  · cases h
  · rename_i hd hf
    split at h
    · rename_i v0 hv
      simp only [Option.some.injEq, Prod.mk.injEq] at h
      obtain ⟨rfl, rfl⟩ := h
      have := setFirst_self cm toName m.headers hd hf
      rw [hv] at this
      rw [this]
    · split at h
      · cases h
      · simp only [Option.some.injEq, Prod.mk.injEq] at h
        obtain ⟨rfl, rfl⟩ := h
        rfl
    · cases h

theorem getCSeq_some {m m' : Message} {c : CSeq} (h : getCSeq cm m = some (c, m')) :
    m' = { m with headers := setFirst cm m.headers cseqName (.cseq c) } := by
  unfold getCSeq at h
  split at h
  · cases h
  · rename_i hd hf
    split at h
    · rename_i v0 hv
      simp only [Option.some.injEq, Prod.mk.injEq] at h
      obtain ⟨rfl, rfl⟩ := h
      have := setFirst_self cm cseqName m.headers hd hf
      rw [hv] at this
      rw [this]
    · split at h
      · cases h
      · simp only [Option.some.injEq, Prod.mk.injEq] at h
        obtain ⟨rfl, rfl⟩ := h
        rfl
    · cases h

end View

/-! ### every pipeline step keeps the views of the classes it does not work on -/

section Steps
variable (cm : List (Bytes × Bytes)) {n : Bytes}

theorem sv_getVia (hd : Disj cm viaName n) {m m' : Message} {v : List ViaParam}
    (h : getVia cm m = some (v, m')) : classView cm n m'.headers = classView cm n m.headers := by
  obtain ⟨_, _, _, rfl⟩ := getVia_some cm h
  exact classView_setFirst_other cm hd _ _

theorem sv_getRoute (hd : Disj cm routeName n) {m m' : Message} {r : List RouteParam}
    (h : getRoute cm m = some (r, m')) : classView cm n m'.headers = classView cm n m.headers := by
  obtain ⟨_, _, _, rfl⟩ := getRoute_some cm h
  exact classView_setFirst_other cm hd _ _

theorem sv_getFrom (hd : Disj cm fromName n) {m m' : Message} {f : FromTo}
    (h : getFrom cm m = some (f, m')) : classView cm n m'.headers = classView cm n m.headers := by
  rw [getFrom_some cm h]
  exact classView_setFirst_other cm hd _ _

theorem sv_getTo (hd : Disj cm toName n) {m m' : Message} {f : FromTo}
    (h : getTo cm m = some (f, m')) : classView cm n m'.headers = classView cm n m.headers := by
  rw [getTo_some cm h]
  exact classView_setFirst_other cm hd _ _

theorem sv_getCSeq (hd : Disj cm cseqName n) {m m' : Message} {c : CSeq}
    (h : getCSeq cm m = some (c, m')) : classView cm n m'.headers = classView cm n m.headers := by
  rw [getCSeq_some cm h]
  exact classView_setFirst_other cm hd _ _

theorem sv_popVia (hd : Disj cm viaName n) {m m' : Message} (h : popVia cm m = some m') :
    classView cm n m'.headers = classView cm n m.headers := by
  unfold popVia at h
  split at h
  · cases h
  · rename_i v m1 hg
    have h1 := sv_getVia cm hd hg
    split at h <;> simp only [Option.some.injEq] at h <;> subst h
    · exact (classView_setFirst_other cm hd _ _).trans h1
    · exact (classView_removeHeader_other cm hd _).trans h1

theorem sv_popRoute (hd : Disj cm routeName n) {m m' : Message} (h : popRoute cm m = some m') :
    classView cm n m'.headers = classView cm n m.headers := by
  unfold popRoute at h
  split at h
  · cases h
  · rename_i v m1 hg
    have h1 := sv_getRoute cm hd hg
    split at h <;> simp only [Option.some.injEq] at h <;> subst h
    · exact (classView_setFirst_other cm hd _ _).trans h1
    · exact (classView_removeHeader_other cm hd _).trans h1

theorem sv_popVia_getD (hd : Disj cm viaName n) (m : Message) :
    classView cm n ((popVia cm m).getD m).headers = classView cm n m.headers := by
  cases h : popVia cm m with
  | none => rfl
  | some m' => exact sv_popVia cm hd h

theorem sv_popRoute_getD (hd : Disj cm routeName n) (m : Message) :
    classView cm n ((popRoute cm m).getD m).headers = classView cm n m.headers := by
  cases h : popRoute cm m with
  | none => rfl
  | some m' => exact sv_popRoute cm hd h

theorem sv_setReceived (hd : Disj cm viaName n) (m : Message) (ip : Bytes) (port : Int) :
    classView cm n (setReceived cm m ip port).headers = classView cm n m.headers := by
  cases hg : getVia cm m with
  | none => rw [setReceived_of_none cm ip port hg]
  | some p =>
    obtain ⟨v, m1⟩ := p
    cases v with
    | nil => rw [setReceived_of_nil cm ip port hg]; exact sv_getVia cm hd hg
    | cons vp rest =>
      rw [setReceived_of_cons cm ip port hg]
      exact classView_setFirst_other cm hd _ _

theorem sv_forEachViaHeaders (hd : Disj cm viaName n) (hs : List Header) :
    classView cm n (forEachViaHeaders cm hs).1 = classView cm n hs := by
  induction hs with
  | nil => rfl
  | cons h hs ih =>
    rw [forEachViaHeaders_cons]
    simp only [classView] at ih
    cases hx : isSameHeader cm h.name viaName with
    | false => simp [classView, List.filter_cons, ih]
    | true =>
      have hn := hd h.name hx
      simp only [Bool.not_true, Bool.false_eq_true, ↓reduceIte]
      split
      · simp [classView, List.filter_cons, ih]
      · split
        · simp [classView, List.filter_cons, ih]
        · simp [classView, ih, hn]
      · simp [classView, List.filter_cons, ih]

theorem sv_addVia (hd : Disj cm viaName n) (m : Message) (vp : ViaParam) :
    classView cm n (addVia cm m vp).headers = classView cm n m.headers :=
  classView_insertAt_other cm _ _ _ (hd _ (isSameHeader_refl cm viaName))

theorem sv_addRecordRoute (hd : Disj cm recordRouteName n) (m : Message) (rr : RouteParam) :
    classView cm n (addRecordRoute cm m rr).headers = classView cm n m.headers :=
  classView_insertAt_other cm _ _ _ (hd _ (isSameHeader_refl cm recordRouteName))

theorem sv_getMethod (hd : Disj cm cseqName n) {m m' : Message} {x : Bytes}
    (h : getMethod cm m = some (x, m')) : classView cm n m'.headers = classView cm n m.headers := by
  unfold getMethod at h
  split at h
  · simp only [Option.some.injEq, Prod.mk.injEq] at h
    rw [← h.2]
  · split at h
    · cases h
    · rename_i c m1 hc
      simp only [Option.some.injEq, Prod.mk.injEq] at h
      rw [← h.2]
      exact sv_getCSeq cm hd hc

theorem sv_getDialog (hF : Disj cm fromName n) (hT : Disj cm toName n) (m : Message) :
    classView cm n (getDialog cm m).2.headers = classView cm n m.headers := by
  unfold getDialog
  split
  · rfl
  · split
    · rfl
    · rename_i f m1 hf
      have h1 := sv_getFrom cm hF hf
      split
      · exact h1
      · split
        · exact h1
        · rename_i t m2 ht
          have h2 := (sv_getTo cm hT ht).trans h1
          split
          · exact h2
          · split <;> exact h2

theorem sv_getClientTransaction (hC : Disj cm cseqName n) (hV : Disj cm viaName n) (m : Message) :
    classView cm n (getClientTransaction cm m).2.headers = classView cm n m.headers := by
  unfold getClientTransaction
  split
  · rfl
  · rename_i c m1 hc
    have h1 := sv_getCSeq cm hC hc
    split
    · exact h1
    · rename_i v m2 hv
      have h2 := (sv_getVia cm hV hv).trans h1
      split
      · exact h2
      · split <;> exact h2

end Steps

section ProxySteps
variable (cfg : Cfg) {n : Bytes}

theorem sv_getNextResponseHop (hV : Disj cfg.cm viaName n) (m : Message) :
    classView cfg.cm n (getNextResponseHop cfg m).2.headers = classView cfg.cm n m.headers := by
  unfold getNextResponseHop
  split
  · rfl
  · rename_i v m1 hv
    have h1 := sv_getVia cfg.cm hV hv
    split
    · exact h1
    · split <;> exact h1

theorem sv_getNextRequestHopByRoute (hR : Disj cfg.cm routeName n) (m : Message) :
    classView cfg.cm n (getNextRequestHopByRoute cfg m).2.headers = classView cfg.cm n m.headers := by
  unfold getNextRequestHopByRoute
  split
  · rfl
  · rename_i r m1 hr
    have h1 := sv_getRoute cfg.cm hR hr
    split
    · exact h1
    · simp only []
      cases cfg.keepNextHopRoute <;>
        simp only [Bool.not_false, Bool.not_true, ↓reduceIte, Bool.false_eq_true] <;> split
      all_goals first | exact (sv_popRoute_getD cfg.cm hR m1).trans h1 | exact h1

theorem sv_getNextRequestHopByConfig (hT : Disj cfg.cm toName n) (m : Message) :
    classView cfg.cm n (getNextRequestHopByConfig cfg m).2.headers = classView cfg.cm n m.headers := by
  unfold getNextRequestHopByConfig
  split
  · rfl
  · rename_i t m1 ht
    have h1 := sv_getTo cfg.cm hT ht
    split
    · exact h1
    · split <;> exact h1

theorem sv_getNextRequestHop (hR : Disj cfg.cm routeName n) (hT : Disj cfg.cm toName n) (m : Message) :
    classView cfg.cm n (getNextRequestHop cfg m).2.headers = classView cfg.cm n m.headers := by
  unfold getNextRequestHop
  have h1 := sv_getNextRequestHopByRoute cfg hR m
  split
  · rename_i h m1 he; rw [he] at h1; exact h1
  · rename_i m1 he
    rw [he] at h1
    exact (sv_getNextRequestHopByConfig cfg hT m1).trans h1

theorem sv_insertSelf (hV : Disj cfg.cm viaName n) (hRR : Disj cfg.cm recordRouteName n)
    (m : Message) (t : Listener) (br : Bytes) :
    classView cfg.cm n (insertSelf cfg m t br).headers = classView cfg.cm n m.headers := by
  unfold insertSelf
  simp only []
  split
  · exact sv_addVia cfg.cm hV m _
  · exact (sv_addRecordRoute cfg.cm hRR _ _).trans (sv_addVia cfg.cm hV m _)

theorem sv_findBackendByDialog (hF : Disj cfg.cm fromName n) (hT : Disj cfg.cm toName n) (st : St) (m : Message) :
    classView cfg.cm n (findBackendByDialog cfg st m).2.2.headers = classView cfg.cm n m.headers := by
  unfold findBackendByDialog
  have h1 := sv_getDialog cfg.cm hF hT m
  split
  · split
    · rename_i m1 he; rw [he] at h1; exact h1
    · rename_i d m1 he; rw [he] at h1; exact h1
  · rfl

end ProxySteps

/-! ### `handleRawMessage` cut into its four stages (proof-side names for the `let`s of the model) -/

section Raw
variable (cfg : Cfg)

/-- stage 1: learn routes (decodes every Via header of a request from a non-backend peer) -/
def rawLearn (st : St) (ev : RawEv) : List (Bytes × Listener) × Message :=
  if isRequest ev.msg && !st.backends.contains ev.peerAddr then
    let l1 := addRoute st.learned ev.peerAddr ev.frm
    let (hs, vias) := forEachViaHeaders cfg.cm ev.msg.headers
    (vias.foldl (fun l vp => addRoute l vp.host ev.frm) l1, { ev.msg with headers := hs })
  else (st.learned, ev.msg)

/-- stage 2: stamp received / rport -/
def rawStamp (ev : RawEv) (m1 : Message) : Message :=
  if isRequest ev.msg && ev.receivedSupport then setReceived cfg.cm m1 ev.peerAddr ev.peerPort else m1

/-- stage 3: remember the inbound TCP connection -/
def rawConn (st : St) (ev : RawEv) (m2 : Message) : List (Bytes × TransEntry) × Message :=
  match isRequest ev.msg, ev.tcpConn with
  | true, some c =>
    match getNextResponseHop cfg m2 with
    | (none, m') => (st.trans, m')
    | (some hop, m') =>
      match getClientTransaction cfg.cm m' with
      | (none, m'') => (st.trans, m'')
      | (some tid, m'') =>
        match getTransport cfg st.trans (str "tcp") (regHost cfg hop.host) hop.port tid with
        | none => (st.trans, m'')
        | some (tr, key, e) => (assocSet tr key { e with primary := some (.conn c) }, m'')
  | _, _ => (st.trans, m2)

/-- does the SIP URI designate the receiving listener? (port equal; host equal literally or after
resolution) -/
def designatesListener (frm : Listener) (u : SIPURI) : Bool :=
  u.getPort == frm.port &&
    (u.host == frm.addr ||
      (match getIp cfg u.host, getIp cfg frm.addr with
       | some a, some b => a == b
       | _, _ => false))

/-- stage 4: consume an own top Route entry -/
def rawOwnRoute (ev : RawEv) (m3 : Message) : Message :=
  match getRoute cfg.cm m3 with
  | none => m3
  | some (r, m') =>
    match r with
    | [] => m'
    | rp :: _ =>
      match rp.nameAddr.addr with
      | .abs _ => m'
      | .sip u => if designatesListener cfg ev.frm u then (popRoute cfg.cm m').getD m' else m'

theorem handleRawMessage_msg (st : St) (ev : RawEv) :
    (handleRawMessage cfg st ev).2 =
      rawOwnRoute cfg ev (rawConn cfg st ev (rawStamp cfg ev (rawLearn cfg st ev).2)).2 := by
  unfold handleRawMessage rawOwnRoute rawConn rawStamp rawLearn designatesListener
  rfl

end Raw

/-! ### stage lemmas -/

section RawLemmas
variable (cfg : Cfg)

/-- what `forEachViaHeaders` does to the first Via-class header -/
def decodeViaHeader (h : Header) : Header :=
  match h.value with
  | .raw s =>
    match parseVia s with
    | some v => { name := h.name, value := .via v }
    | none => h
  | _ => h

theorem findHeader_forEachViaHeaders (cm : List (Bytes × Bytes)) (hs : List Header) :
    findHeader cm (forEachViaHeaders cm hs).1 viaName = (findHeader cm hs viaName).map decodeViaHeader := by
  induction hs with
  | nil => rfl
  | cons h hs ih =>
    rw [forEachViaHeaders_cons]
    simp only [findHeader] at ih
    cases hx : isSameHeader cm h.name viaName with
    | false => simp [findHeader, hx, ih]
    | true =>
      simp only [Bool.not_true, Bool.false_eq_true, ↓reduceIte, findHeader]
      split
      · rename_i v hv; simp [hx, decodeViaHeader, hv]
      · rename_i s hv
        split
        · rename_i hp; simp [hx, decodeViaHeader, hv, hp]
        · rename_i v hp; simp [hx, decodeViaHeader, hv, hp]
      · rename_i h1 h2
        have : decodeViaHeader h = h := by
          unfold decodeViaHeader
          split
          · rename_i s hv; exact absurd hv (h2 s)
          · rfl
        simp [hx, this]

/-- decoding all Via headers in place does not change what `getVia` reads -/
theorem getVia_fst_forEachViaHeaders (cm : List (Bytes × Bytes)) (m : Message) :
    (getVia cm { m with headers := (forEachViaHeaders cm m.headers).1 }).map Prod.fst =
      (getVia cm m).map Prod.fst := by
  unfold getVia
  simp only [findHeader_forEachViaHeaders]
  cases findHeader cm m.headers viaName with
  | none => rfl
  | some hd =>
    simp only [Option.map_some, decodeViaHeader]
    cases hv : hd.value with
    | raw s =>
      simp only []
      cases hp : parseVia s with
      | none => simp [hv, hp]
      | some v => simp
    | _ => simp [hv]

theorem rawLearn_cases (st : St) (ev : RawEv) :
    (rawLearn cfg st ev).2 = ev.msg ∨
    (rawLearn cfg st ev).2 = { ev.msg with headers := (forEachViaHeaders cfg.cm ev.msg.headers).1 } := by
  unfold rawLearn
  split
  · right
    rcases forEachViaHeaders cfg.cm ev.msg.headers with ⟨hs, vs⟩
    rfl
  · left; rfl

theorem viaStack_rawLearn (st : St) (ev : RawEv) :
    viaStack cfg.cm (rawLearn cfg st ev).2.headers = viaStack cfg.cm ev.msg.headers := by
  rcases rawLearn_cases cfg st ev with h | h <;> rw [h]
  exact viaStack_forEachViaHeaders cfg.cm _

theorem getVia_fst_rawLearn (st : St) (ev : RawEv) :
    (getVia cfg.cm (rawLearn cfg st ev).2).map Prod.fst = (getVia cfg.cm ev.msg).map Prod.fst := by
  rcases rawLearn_cases cfg st ev with h | h <;> rw [h]
  exact getVia_fst_forEachViaHeaders cfg.cm _

theorem sv_rawLearn {n : Bytes} (hV : Disj cfg.cm viaName n) (st : St) (ev : RawEv) :
    classView cfg.cm n (rawLearn cfg st ev).2.headers = classView cfg.cm n ev.msg.headers := by
  rcases rawLearn_cases cfg st ev with h | h <;> rw [h]
  exact sv_forEachViaHeaders cfg.cm hV _

theorem sv_rawStamp {n : Bytes} (hV : Disj cfg.cm viaName n) (ev : RawEv) (m : Message) :
    classView cfg.cm n (rawStamp cfg ev m).headers = classView cfg.cm n m.headers := by
  unfold rawStamp
  split
  · exact sv_setReceived cfg.cm hV _ _ _
  · rfl

theorem sv_rawConn {n : Bytes} (hV : Disj cfg.cm viaName n) (hC : Disj cfg.cm cseqName n)
    (st : St) (ev : RawEv) (m : Message) :
    classView cfg.cm n (rawConn cfg st ev m).2.headers = classView cfg.cm n m.headers := by
  unfold rawConn
  split
  · have h1 := sv_getNextResponseHop cfg hV m
    split
    · rename_i m' he; rw [he] at h1; exact h1
    · rename_i hop m' he
      rw [he] at h1
      have h2 := (sv_getClientTransaction cfg.cm hC hV m').trans h1
      split
      · rename_i m'' he2; rw [he2] at h2; exact h2
      · rename_i tid m'' he2
        rw [he2] at h2
        split <;> exact h2
  · rfl

theorem sv_rawOwnRoute {n : Bytes} (hR : Disj cfg.cm routeName n) (ev : RawEv) (m : Message) :
    classView cfg.cm n (rawOwnRoute cfg ev m).headers = classView cfg.cm n m.headers := by
  unfold rawOwnRoute
  split
  · rfl
  · rename_i r m1 hr
    have h1 := sv_getRoute cfg.cm hR hr
    split
    · exact h1
    · split
      · exact h1
      · split
        · exact (sv_popRoute_getD cfg.cm hR m1).trans h1
        · exact h1

/-- the whole of `handleRawMessage` on a class disjoint from Via, CSeq and Route -/
theorem sv_handleRawMessage {n : Bytes} (hV : Disj cfg.cm viaName n) (hC : Disj cfg.cm cseqName n)
    (hR : Disj cfg.cm routeName n) (st : St) (ev : RawEv) :
    classView cfg.cm n (handleRawMessage cfg st ev).2.headers = classView cfg.cm n ev.msg.headers := by
  rw [handleRawMessage_msg]
  exact (sv_rawOwnRoute cfg hR _ _).trans ((sv_rawConn cfg hV hC _ _ _).trans
    ((sv_rawStamp cfg hV _ _).trans (sv_rawLearn cfg hV _ _)))

/-! #### the Via stack through the decode-only steps -/

theorem viaStack_getNextResponseHop (m : Message) :
    viaStack cfg.cm (getNextResponseHop cfg m).2.headers = viaStack cfg.cm m.headers := by
  unfold getNextResponseHop
  cases hg : getVia cfg.cm m with
  | none => rfl
  | some p =>
    obtain ⟨v, m1⟩ := p
    have := (viaStack_getVia cfg.cm hg).1
    cases v with
    | nil => exact this
    | cons vp rest =>
      simp only []
      split <;> exact this

theorem viaStack_getClientTransaction (cm : List (Bytes × Bytes)) (hCV : Disj cm cseqName viaName) (m : Message) :
    viaStack cm (getClientTransaction cm m).2.headers = viaStack cm m.headers := by
  unfold getClientTransaction
  split
  · rfl
  · rename_i c m1 hc
    have h1 : viaStack cm m1.headers = viaStack cm m.headers := stackOf_of_view cm _ _ (sv_getCSeq cm hCV hc)
    split
    · exact h1
    · rename_i v m2 hv
      have h2 := (viaStack_getVia cm hv).1.trans h1
      split
      · exact h2
      · split <;> exact h2

theorem viaStack_rawConn (hCV : Disj cfg.cm cseqName viaName) (st : St) (ev : RawEv) (m : Message) :
    viaStack cfg.cm (rawConn cfg st ev m).2.headers = viaStack cfg.cm m.headers := by
  unfold rawConn
  split
  · have h1 := viaStack_getNextResponseHop cfg m
    split
    · rename_i m' he; rw [he] at h1; exact h1
    · rename_i hop m' he
      rw [he] at h1
      have h2 := (viaStack_getClientTransaction cfg.cm hCV m').trans h1
      split
      · rename_i m'' he2; rw [he2] at h2; exact h2
      · rename_i tid m'' he2
        rw [he2] at h2
        split <;> exact h2
  · rfl

end RawLemmas

/-! ### the two stages that do change a stack -/

section RawMain
variable (cfg : Cfg)

/-- `viaStack_setReceived` with the scrutinee reduced to what `getVia` reads -/
theorem viaStack_setReceived_fst (cm : List (Bytes × Bytes)) (m : Message) (ip : Bytes) (port : Int) :
    viaStack cm (setReceived cm m ip port).headers =
      match (getVia cm m).map Prod.fst with
      | some (vp :: _) => stampReceived vp ip port :: (viaStack cm m.headers).tail
      | _ => viaStack cm m.headers := by
  rw [viaStack_setReceived]
  cases getVia cm m with
  | none => rfl
  | some p =>
    obtain ⟨v, m1⟩ := p
    cases v <;> rfl

/-- the Via stack after `handleRawMessage`, as a function of the received message -/
theorem viaStack_handleRawMessage (hVR : Disj cfg.cm viaName routeName) (hCV : Disj cfg.cm cseqName viaName)
    (st : St) (ev : RawEv) :
    viaStack cfg.cm (handleRawMessage cfg st ev).2.headers =
      if isRequest ev.msg && ev.receivedSupport then
        match (getVia cfg.cm ev.msg).map Prod.fst with
        | some (vp :: _) => stampReceived vp ev.peerAddr ev.peerPort :: (viaStack cfg.cm ev.msg.headers).tail
        | _ => viaStack cfg.cm ev.msg.headers
      else viaStack cfg.cm ev.msg.headers := by
  rw [handleRawMessage_msg]
  have h4 : ∀ m, viaStack cfg.cm (rawOwnRoute cfg ev m).headers = viaStack cfg.cm m.headers :=
    fun m => stackOf_of_view cfg.cm _ _ (sv_rawOwnRoute cfg hVR.symm ev m)
  rw [h4, viaStack_rawConn cfg hCV]
  unfold rawStamp
  split
  · rw [viaStack_setReceived_fst, getVia_fst_rawLearn, viaStack_rawLearn]
  · exact viaStack_rawLearn cfg st ev

/-- stage 4 on the Route stack: exactly the head entry goes iff it designates the listener -/
theorem routeStack_rawOwnRoute (ev : RawEv) (m : Message) :
    routeStack cfg.cm (rawOwnRoute cfg ev m).headers =
      match (getRoute cfg.cm m).map Prod.fst with
      | some (rp :: _) =>
        match rp.nameAddr.addr with
        | .sip u => if designatesListener cfg ev.frm u then (routeStack cfg.cm m.headers).tail
                    else routeStack cfg.cm m.headers
        | .abs _ => routeStack cfg.cm m.headers
      | _ => routeStack cfg.cm m.headers := by
  unfold rawOwnRoute
  cases hg : getRoute cfg.cm m with
  | none => rfl
  | some p =>
    obtain ⟨r, m1⟩ := p
    have h1 := (routeStack_getRoute cfg.cm hg).1
    cases r with
    | nil => exact h1
    | cons rp rest =>
      simp only [Option.map_some]
      cases hu : rp.nameAddr.addr with
      | abs s => exact h1
      | sip u =>
        simp only []
        split
        · obtain ⟨m2, hp, hs⟩ := routeStack_popRoute_after_get cfg.cm hg
          rw [hp]; exact hs
        · exact h1

/-- the Route stack after `handleRawMessage`, as a function of the received message -/
theorem routeStack_handleRawMessage (hVR : Disj cfg.cm viaName routeName) (hCR : Disj cfg.cm cseqName routeName)
    (st : St) (ev : RawEv) :
    routeStack cfg.cm (handleRawMessage cfg st ev).2.headers =
      match (getRoute cfg.cm ev.msg).map Prod.fst with
      | some (rp :: _) =>
        match rp.nameAddr.addr with
        | .sip u => if designatesListener cfg ev.frm u then (routeStack cfg.cm ev.msg.headers).tail
                    else routeStack cfg.cm ev.msg.headers
        | .abs _ => routeStack cfg.cm ev.msg.headers
      | _ => routeStack cfg.cm ev.msg.headers := by
  rw [handleRawMessage_msg, routeStack_rawOwnRoute]
  have hv : classView cfg.cm routeName (rawConn cfg st ev (rawStamp cfg ev (rawLearn cfg st ev).2)).2.headers =
      classView cfg.cm routeName ev.msg.headers :=
    (sv_rawConn cfg hVR hCR _ _ _).trans ((sv_rawStamp cfg hVR _ _).trans (sv_rawLearn cfg hVR _ _))
  rw [getRoute_fst_of_view cfg.cm hv]
  have hs : routeStack cfg.cm (rawConn cfg st ev (rawStamp cfg ev (rawLearn cfg st ev).2)).2.headers =
      routeStack cfg.cm ev.msg.headers := stackOf_of_view cfg.cm _ _ hv
  rw [hs]

end RawMain

/-! ### what is put on the wire -/

/-- the bytes carried by an output event -/
def _root_.Proxy.Out.data : Out → Bytes
  | .backend _ d => d
  | .udp _ _ d => d
  | .conn _ d => d
  | .tcp _ _ d => d

def _root_.Proxy.Out.isBackend : Out → Bool
  | .backend _ _ => true
  | _ => false

section Emit
variable (cfg : Cfg)

theorem entrySend_out (e : TransEntry) (d : Bytes) (o : Out) (ho : o ∈ entrySend e d) :
    o.data = d ∧ o.isBackend = false := by
  unfold entrySend at ho
  split at ho
  · simp only [List.mem_singleton] at ho; subst ho; exact ⟨rfl, rfl⟩
  · simp only [List.mem_singleton] at ho; subst ho; exact ⟨rfl, rfl⟩
  · split at ho
    · split at ho
      · simp only [List.mem_singleton] at ho; subst ho; exact ⟨rfl, rfl⟩
      · cases ho
    · cases ho

/-- `sendMessage` serialises its argument after decoding CSeq and Via in place -/
theorem sendMessage_out (st : St) (h : Hop) (m : Message) (o : Out) (ho : o ∈ (sendMessage cfg st h m).2) :
    o.data = ((getClientTransaction cfg.cm m).2).bytes cfg.cm ∧ o.isBackend = false := by
  unfold sendMessage at ho
  rcases hct : getClientTransaction cfg.cm m with ⟨tid, m1⟩
  rw [hct] at ho
  simp only [] at ho
  split at ho
  · cases ho
  · exact entrySend_out _ _ o ho

/-- `sendToBackend` serialises the message with the proxy's own entries for the first listener -/
theorem sendToBackend_out (st : St) (m : Message) (br : Bytes) (o : Out) (ho : o ∈ (sendToBackend cfg st m br).2) :
    ∃ t0 a, cfg.transports0 = some t0 ∧
      o = .backend a ((insertSelf cfg (findBackendByDialog cfg st m).2.2 t0 br).bytes cfg.cm) := by
  unfold sendToBackend at ho
  cases ht : cfg.transports0 with
  | none => simp [ht] at ho
  | some t0 =>
    simp only [ht] at ho
    split at ho
    · cases ho
    · rename_i a _
      simp only [List.mem_singleton] at ho
      exact ⟨t0, a, rfl, ho⟩

/-- the request branch of `handleMessage`: which message is serialised -/
theorem handleMessage_request_out (st : St) (ev : RawEv) (m : Message) (hreq : isRequest m = true)
    (o : Out) (ho : o ∈ (handleMessage cfg st ev m).2) :
    (o.isBackend = true ∧ (getNextRequestHop cfg m).1 = none ∧ ∃ t0, cfg.transports0 = some t0 ∧
        o.data = (insertSelf cfg (findBackendByDialog cfg st (getNextRequestHop cfg m).2).2.2 t0 ev.branch).bytes cfg.cm) ∨
    (o.isBackend = false ∧ ∃ hop, (getNextRequestHop cfg m).1 = some hop ∧
        o.data = ((getClientTransaction cfg.cm
          (match assocGet st.learned hop.host with
           | some t => insertSelf cfg (getNextRequestHop cfg m).2 t ev.branch
           | none => (getNextRequestHop cfg m).2)).2).bytes cfg.cm) := by
  unfold handleMessage at ho
  simp only [hreq, ↓reduceIte] at ho
  rcases hh : getNextRequestHop cfg m with ⟨hop, m1⟩
  rw [hh] at ho
  cases hop with
  | some hop =>
    right
    simp only [] at ho
    obtain ⟨h1, h2⟩ := sendMessage_out cfg _ _ _ o ho
    exact ⟨h2, hop, rfl, h1⟩
  | none =>
    left
    simp only [] at ho
    split at ho
    · obtain ⟨t0, a, ht, rfl⟩ := sendToBackend_out cfg _ _ _ o ho
      exact ⟨rfl, rfl, t0, ht, rfl⟩
    · cases ho

end Emit

/-! ### start line through `handleRawMessage`; `handleDialog` ignores requests -/

section Start
variable (cfg : Cfg)

theorem start_getVia (cm : List (Bytes × Bytes)) {m m' : Message} {v : List ViaParam}
    (h : getVia cm m = some (v, m')) : m'.start = m.start := by
  obtain ⟨_, _, _, rfl⟩ := getVia_some cm h; rfl

theorem start_getRoute (cm : List (Bytes × Bytes)) {m m' : Message} {r : List RouteParam}
    (h : getRoute cm m = some (r, m')) : m'.start = m.start := by
  obtain ⟨_, _, _, rfl⟩ := getRoute_some cm h; rfl

theorem start_getCSeq (cm : List (Bytes × Bytes)) {m m' : Message} {c : CSeq}
    (h : getCSeq cm m = some (c, m')) : m'.start = m.start := by
  rw [getCSeq_some cm h]

theorem start_popRoute_getD (cm : List (Bytes × Bytes)) (m : Message) :
    ((popRoute cm m).getD m).start = m.start := by
  unfold popRoute
  cases hg : getRoute cm m with
  | none => rfl
  | some p =>
    obtain ⟨r, m1⟩ := p
    have := start_getRoute cm hg
    simp only []
    split <;> exact this

theorem start_setReceived (cm : List (Bytes × Bytes)) (m : Message) (ip : Bytes) (port : Int) :
    (setReceived cm m ip port).start = m.start := by
  cases hg : getVia cm m with
  | none => rw [setReceived_of_none cm ip port hg]
  | some p =>
    obtain ⟨v, m1⟩ := p
    cases v with
    | nil => rw [setReceived_of_nil cm ip port hg]; exact start_getVia cm hg
    | cons vp rest => rw [setReceived_of_cons cm ip port hg]

theorem start_getClientTransaction (cm : List (Bytes × Bytes)) (m : Message) :
    (getClientTransaction cm m).2.start = m.start := by
  unfold getClientTransaction
  split
  · rfl
  · rename_i c m1 hc
    have h1 := start_getCSeq cm hc
    split
    · exact h1
    · rename_i v m2 hv
      have h2 := (start_getVia cm hv).trans h1
      split
      · exact h2
      · split <;> exact h2

theorem start_getNextResponseHop (m : Message) : (getNextResponseHop cfg m).2.start = m.start := by
  unfold getNextResponseHop
  split
  · rfl
  · rename_i v m1 hv
    have h1 := start_getVia cfg.cm hv
    split
    · exact h1
    · split <;> exact h1

theorem start_handleRawMessage (st : St) (ev : RawEv) : (handleRawMessage cfg st ev).2.start = ev.msg.start := by
  rw [handleRawMessage_msg]
  have h1 : (rawLearn cfg st ev).2.start = ev.msg.start := by
    rcases rawLearn_cases cfg st ev with h | h <;> rw [h]
  have h2 : ∀ m, (rawStamp cfg ev m).start = m.start := by
    intro m; unfold rawStamp; split
    · exact start_setReceived ..
    · rfl
  have h3 : ∀ m, (rawConn cfg st ev m).2.start = m.start := by
    intro m
    unfold rawConn
    split
    · have a1 := start_getNextResponseHop cfg m
      split
      · rename_i m' he; rw [he] at a1; exact a1
      · rename_i hop m' he
        rw [he] at a1
        have a2 := (start_getClientTransaction cfg.cm m').trans a1
        split
        · rename_i m'' he2; rw [he2] at a2; exact a2
        · rename_i tid m'' he2
          rw [he2] at a2
          split <;> exact a2
    · rfl
  have h4 : ∀ m, (rawOwnRoute cfg ev m).start = m.start := by
    intro m
    unfold rawOwnRoute
    split
    · rfl
    · rename_i r m1 hr
      have a1 := start_getRoute cfg.cm hr
      split
      · exact a1
      · split
        · exact a1
        · split
          · exact (start_popRoute_getD cfg.cm m1).trans a1
          · exact a1
  rw [h4, h3, h2, h1]

theorem isRequest_handleRawMessage (st : St) (ev : RawEv) :
    isRequest (handleRawMessage cfg st ev).2 = isRequest ev.msg := by
  unfold isRequest
  rw [start_handleRawMessage]

theorem handleDialog_request (st : St) (a : Bytes) (p : Int) (m : Message) (h : isRequest m = true) :
    handleDialog cfg st a p m = (st, m) := by
  simp [handleDialog, isResponse, h]

/-- a request goes through `step` as `handleRawMessage` then `handleMessage` -/
theorem step_request (st : St) (ev : RawEv) (h : isRequest ev.msg = true) :
    step cfg st ev = handleMessage cfg (handleRawMessage cfg st ev).1 ev (handleRawMessage cfg st ev).2 := by
  have hr := isRequest_handleRawMessage cfg st ev
  rw [h] at hr
  unfold step
  rcases hh : handleRawMessage cfg st ev with ⟨st1, m1⟩
  rw [hh] at hr
  simp only [handleDialog_request cfg st1 _ _ m1 hr]

end Start


/-! ### all class-disjointness facts the pipeline theorems need -/

/-- the name classes the pipeline writes into do not overlap with the three routing classes -/
structure ClassesOK (cm : List (Bytes × Bytes)) : Prop where
  via_route : Disj cm viaName routeName
  via_rr : Disj cm viaName recordRouteName
  route_rr : Disj cm routeName recordRouteName
  cseq_via : Disj cm cseqName viaName
  cseq_route : Disj cm cseqName routeName
  cseq_rr : Disj cm cseqName recordRouteName
  from_via : Disj cm fromName viaName
  from_route : Disj cm fromName routeName
  from_rr : Disj cm fromName recordRouteName
  to_via : Disj cm toName viaName
  to_route : Disj cm toName routeName
  to_rr : Disj cm toName recordRouteName

/-! ### `insertSelf` on the three stacks -/

section InsertSelf
variable (cfg : Cfg)

theorem viaStack_insertSelf (m : Message) (t : Listener) (br : Bytes) :
    viaStack cfg.cm (insertSelf cfg m t br).headers = ownVia t br :: viaStack cfg.cm m.headers := by
  unfold insertSelf
  simp only []
  split
  · exact viaStack_addVia cfg.cm m _
  · rw [viaStack_addRecordRoute, viaStack_addVia]

/-- only needs: the name "Via" is not itself a Record-Route name -/
theorem rrStack_insertSelf (hV : isSameHeader cfg.cm viaName recordRouteName = false)
    (m : Message) (t : Listener) (br : Bytes) :
    rrStack cfg.cm (insertSelf cfg m t br).headers =
      (if (findHeader cfg.cm m.headers recordRouteName).isSome ∨ cfg.mustRecordRoute = true
       then [ownRecordRoute t] else []) ++ rrStack cfg.cm m.headers := by
  have hfind : findHeader cfg.cm (addVia cfg.cm m (ownVia t br)).headers recordRouteName =
      findHeader cfg.cm m.headers recordRouteName :=
    findHeader_insertAt_other cfg.cm _ _ _ _ hV
  unfold insertSelf
  simp only [hfind]
  cases hf : (findHeader cfg.cm m.headers recordRouteName) with
  | none =>
    cases hm : cfg.mustRecordRoute with
    | false => simp [rrStack_addVia]
    | true => simp [rrStack_addRecordRoute, rrStack_addVia]
  | some h => simp [rrStack_addRecordRoute, rrStack_addVia]

theorem routeStack_insertSelf (m : Message) (t : Listener) (br : Bytes) :
    routeStack cfg.cm (insertSelf cfg m t br).headers = routeStack cfg.cm m.headers := by
  unfold insertSelf
  simp only []
  split
  · exact routeStack_addVia cfg.cm m _
  · rw [routeStack_addRecordRoute, routeStack_addVia]

end InsertSelf

/-! ### a request through one `step`: the three stacks of every message put on the wire -/

section StepRequest
variable (cfg : Cfg)

theorem routeView_getNextRequestHop (hTR : Disj cfg.cm toName routeName) (m : Message) :
    classView cfg.cm routeName (getNextRequestHop cfg m).2.headers =
      classView cfg.cm routeName (getNextRequestHopByRoute cfg m).2.headers := by
  unfold getNextRequestHop
  split
  · rename_i h m1 he; rw [he]
  · rename_i m1 he
    rw [he]
    exact sv_getNextRequestHopByConfig cfg hTR m1

/-- Every packet a request event produces is the serialisation of a message `m'` whose stacks are:
Via = (own Via for listener `self`, if any) on top of the Via stack after `handleRawMessage`;
Record-Route = (own entry, if `self` and the request carried a Record-Route or always-record) ahead
of the received ones; Route = what `getNextRequestHopByRoute` left. `self` is the backend item's
first listener for packets to a backend, and the listener learned for the hop's host (if any)
for relayed packets. -/
theorem step_request_out (hc : ClassesOK cfg.cm) (st : St) (ev : RawEv) (hreq : isRequest ev.msg = true)
    (o : Out) (ho : o ∈ (step cfg st ev).2) :
    ∃ (m' : Message) (self : Option Listener), o.data = m'.bytes cfg.cm ∧
      viaStack cfg.cm m'.headers =
        (match self with | some t => [ownVia t ev.branch] | none => []) ++
          viaStack cfg.cm (handleRawMessage cfg st ev).2.headers ∧
      rrStack cfg.cm m'.headers =
        (match self with
         | some t => if (findHeader cfg.cm ev.msg.headers recordRouteName).isSome ∨ cfg.mustRecordRoute = true
                     then [ownRecordRoute t] else []
         | none => []) ++ rrStack cfg.cm ev.msg.headers ∧
      routeStack cfg.cm m'.headers =
        routeStack cfg.cm (getNextRequestHopByRoute cfg (handleRawMessage cfg st ev).2).2.headers ∧
      (if o.isBackend then
         (getNextRequestHop cfg (handleRawMessage cfg st ev).2).1 = none ∧ self = cfg.transports0 ∧ self.isSome = true
       else ∃ hop, (getNextRequestHop cfg (handleRawMessage cfg st ev).2).1 = some hop ∧
         self = assocGet (handleRawMessage cfg st ev).1.learned hop.host) := by
  rw [step_request cfg st ev hreq] at ho
  have hreqR : isRequest (handleRawMessage cfg st ev).2 = true := by rw [isRequest_handleRawMessage]; exact hreq
  generalize hmR : (handleRawMessage cfg st ev).2 = mR at *
  generalize (handleRawMessage cfg st ev).1 = stR at *
  -- views after routing
  have hvia1 : classView cfg.cm viaName (getNextRequestHop cfg mR).2.headers = classView cfg.cm viaName mR.headers :=
    sv_getNextRequestHop cfg hc.via_route.symm hc.to_via mR
  have hrrR : classView cfg.cm recordRouteName mR.headers = classView cfg.cm recordRouteName ev.msg.headers := by
    rw [← hmR]; exact sv_handleRawMessage cfg hc.via_rr hc.cseq_rr hc.route_rr st ev
  have hrr1 : classView cfg.cm recordRouteName (getNextRequestHop cfg mR).2.headers =
      classView cfg.cm recordRouteName ev.msg.headers :=
    (sv_getNextRequestHop cfg hc.route_rr hc.to_rr mR).trans hrrR
  have hroute1 := routeView_getNextRequestHop cfg hc.to_route mR
  generalize hm1 : (getNextRequestHop cfg mR).2 = m1 at *
  rcases handleMessage_request_out cfg stR ev mR hreqR o ho with ⟨hb, hnone, t0, ht0, hd⟩ | ⟨hb, hop, hhop, hd⟩
  · -- to a backend
    rw [hm1] at hd
    generalize hmb : (findBackendByDialog cfg stR m1).2.2 = mb at *
    have hviab : classView cfg.cm viaName mb.headers = classView cfg.cm viaName m1.headers := by
      rw [← hmb]; exact sv_findBackendByDialog cfg hc.from_via hc.to_via stR m1
    have hrrb : classView cfg.cm recordRouteName mb.headers = classView cfg.cm recordRouteName m1.headers := by
      rw [← hmb]; exact sv_findBackendByDialog cfg hc.from_rr hc.to_rr stR m1
    have hrouteb : classView cfg.cm routeName mb.headers = classView cfg.cm routeName m1.headers := by
      rw [← hmb]; exact sv_findBackendByDialog cfg hc.from_route hc.to_route stR m1
    refine ⟨insertSelf cfg mb t0 ev.branch, some t0, hd, ?_, ?_, ?_, ?_⟩
    · rw [viaStack_insertSelf cfg]
      have : viaStack cfg.cm mb.headers = viaStack cfg.cm mR.headers :=
        stackOf_of_view cfg.cm _ _ (hviab.trans hvia1)
      rw [this]; rfl
    · rw [rrStack_insertSelf cfg (hc.via_rr _ (isSameHeader_refl _ _))]
      have h1 : rrStack cfg.cm mb.headers = rrStack cfg.cm ev.msg.headers :=
        stackOf_of_view cfg.cm _ _ (hrrb.trans hrr1)
      have h2 : findHeader cfg.cm mb.headers recordRouteName = findHeader cfg.cm ev.msg.headers recordRouteName :=
        findHeader_of_view cfg.cm _ (hrrb.trans hrr1)
      rw [h1, h2]
    · rw [routeStack_insertSelf cfg]
      exact stackOf_of_view cfg.cm _ _ (hrouteb.trans hroute1)
    · simp only [hb, ↓reduceIte]
      exact ⟨hnone, ht0.symm, rfl⟩
  · -- relayed
    rw [hm1] at hd
    generalize hm2 : (match assocGet stR.learned hop.host with
      | some t => insertSelf cfg m1 t ev.branch
      | none => m1) = m2 at hd
    refine ⟨(getClientTransaction cfg.cm m2).2, assocGet stR.learned hop.host, hd, ?_, ?_, ?_, ?_⟩
    · rw [viaStack_getClientTransaction cfg.cm hc.cseq_via]
      cases hl : assocGet stR.learned hop.host with
      | none =>
        rw [hl] at hm2; subst hm2
        exact stackOf_of_view cfg.cm _ _ hvia1
      | some t =>
        rw [hl] at hm2; subst hm2
        rw [viaStack_insertSelf cfg]
        have : viaStack cfg.cm m1.headers = viaStack cfg.cm mR.headers := stackOf_of_view cfg.cm _ _ hvia1
        rw [this]; rfl
    · have h0 : rrStack cfg.cm (getClientTransaction cfg.cm m2).2.headers = rrStack cfg.cm m2.headers :=
        stackOf_of_view cfg.cm _ _ (sv_getClientTransaction cfg.cm hc.cseq_rr hc.via_rr m2)
      rw [h0]
      cases hl : assocGet stR.learned hop.host with
      | none =>
        rw [hl] at hm2; subst hm2
        exact stackOf_of_view cfg.cm _ _ hrr1
      | some t =>
        rw [hl] at hm2; subst hm2
        rw [rrStack_insertSelf cfg (hc.via_rr _ (isSameHeader_refl _ _))]
        have h1 : rrStack cfg.cm m1.headers = rrStack cfg.cm ev.msg.headers := stackOf_of_view cfg.cm _ _ hrr1
        have h2 : findHeader cfg.cm m1.headers recordRouteName = findHeader cfg.cm ev.msg.headers recordRouteName :=
          findHeader_of_view cfg.cm _ hrr1
        rw [h1, h2]
    · have h0 : routeStack cfg.cm (getClientTransaction cfg.cm m2).2.headers = routeStack cfg.cm m2.headers :=
        stackOf_of_view cfg.cm _ _ (sv_getClientTransaction cfg.cm hc.cseq_route hc.via_route m2)
      rw [h0]
      cases hl : assocGet stR.learned hop.host with
      | none =>
        rw [hl] at hm2; subst hm2
        exact stackOf_of_view cfg.cm _ _ hroute1
      | some t =>
        rw [hl] at hm2; subst hm2
        rw [routeStack_insertSelf cfg]
        exact stackOf_of_view cfg.cm _ _ hroute1
    · simp only [hb, Bool.false_eq_true, ↓reduceIte]
      exact ⟨hop, hhop, rfl⟩

end StepRequest

/-! ### ... and their proof for the generated table -/

section RealMap

theorem real_cseq (n : Bytes) : isSameHeader realCm n cseqName = (toLower n == [99, 115, 101, 113]) := by
  have h1 : getCompact realCm cseqName = none := by decide +kernel
  have h2 : toLower cseqName = [99, 115, 101, 113] := by decide +kernel
  simp only [isSameHeader, h1, equalFold, h2, Bool.or_false]

theorem real_from (n : Bytes) :
    isSameHeader realCm n fromName = (toLower n == [102, 114, 111, 109] || toLower n == [102]) := by
  have h1 : getCompact realCm fromName = some [102] := by decide +kernel
  have h2 : toLower fromName = [102, 114, 111, 109] := by decide +kernel
  have h3 : toLower [102] = [102] := by decide
  simp only [isSameHeader, h1, equalFold, h2, h3]

theorem real_to (n : Bytes) :
    isSameHeader realCm n toName = (toLower n == [116, 111] || toLower n == [116]) := by
  have h1 : getCompact realCm toName = some [116] := by decide +kernel
  have h2 : toLower toName = [116, 111] := by decide +kernel
  have h3 : toLower [116] = [116] := by decide
  simp only [isSameHeader, h1, equalFold, h2, h3]

/-- `Disj realCm a b` from the two class characterisations -/
macro "real_disj " a:ident b:ident : tactic =>
  `(tactic| (intro x h; rw [$a:ident] at h; rw [$b:ident];
             simp only [Bool.or_eq_true, beq_iff_eq] at h;
             first
               | (rcases h with h | h <;> rw [h] <;> decide)
               | (rw [h]; decide)))

theorem real_classesOK : ClassesOK realCm where
  via_route := real_via_route
  via_rr := real_via_rr
  route_rr := real_route_rr
  cseq_via := by real_disj real_cseq real_via
  cseq_route := by real_disj real_cseq real_route
  cseq_rr := by real_disj real_cseq real_recordRoute
  from_via := by real_disj real_from real_via
  from_route := by real_disj real_from real_route
  from_rr := by real_disj real_from real_recordRoute
  to_via := by real_disj real_to real_via
  to_route := by real_disj real_to real_route
  to_rr := by real_disj real_to real_recordRoute

end RealMap

/-! ### decode-only steps as seen from the Via class

`ViaEquiv cm m m'`: same Via stack, `getVia` reads the same list, same start line. Holds across
every step that only decodes headers in place (of whatever class). -/

section ViaEquiv
variable (cm : List (Bytes × Bytes))

def ViaEquiv (m m' : Message) : Prop :=
  viaStack cm m'.headers = viaStack cm m.headers ∧
  (getVia cm m').map Prod.fst = (getVia cm m).map Prod.fst ∧
  m'.start = m.start

theorem ViaEquiv.refl (m : Message) : ViaEquiv cm m m := ⟨rfl, rfl, rfl⟩

theorem ViaEquiv.trans {a b c : Message} (h1 : ViaEquiv cm a b) (h2 : ViaEquiv cm b c) : ViaEquiv cm a c :=
  ⟨h2.1.trans h1.1, h2.2.1.trans h1.2.1, h2.2.2.trans h1.2.2⟩

theorem viaEquiv_of_view {m m' : Message}
    (hv : classView cm viaName m'.headers = classView cm viaName m.headers) (hs : m'.start = m.start) :
    ViaEquiv cm m m' :=
  ⟨stackOf_of_view cm _ _ hv, getVia_fst_of_view cm hv, hs⟩

theorem viaEquiv_getVia {m m' : Message} {v : List ViaParam} (h : getVia cm m = some (v, m')) :
    ViaEquiv cm m m' :=
  ⟨(viaStack_getVia cm h).1, by rw [getVia_idem cm h, h], start_getVia cm h⟩

theorem viaEquiv_getCSeq (hd : Disj cm cseqName viaName) {m m' : Message} {c : CSeq}
    (h : getCSeq cm m = some (c, m')) : ViaEquiv cm m m' :=
  viaEquiv_of_view cm (sv_getCSeq cm hd h) (start_getCSeq cm h)

theorem viaEquiv_getFrom (hd : Disj cm fromName viaName) {m m' : Message} {f : FromTo}
    (h : getFrom cm m = some (f, m')) : ViaEquiv cm m m' :=
  viaEquiv_of_view cm (sv_getFrom cm hd h) (by rw [getFrom_some cm h])

theorem viaEquiv_getTo (hd : Disj cm toName viaName) {m m' : Message} {f : FromTo}
    (h : getTo cm m = some (f, m')) : ViaEquiv cm m m' :=
  viaEquiv_of_view cm (sv_getTo cm hd h) (by rw [getTo_some cm h])

theorem viaEquiv_getMethod (hd : Disj cm cseqName viaName) {m m' : Message} {x : Bytes}
    (h : getMethod cm m = some (x, m')) : ViaEquiv cm m m' := by
  unfold getMethod at h
  split at h
  · simp only [Option.some.injEq, Prod.mk.injEq] at h
    rw [← h.2]; exact ViaEquiv.refl cm m
  · split at h
    · cases h
    · rename_i c m1 hc
      simp only [Option.some.injEq, Prod.mk.injEq] at h
      rw [← h.2]
      exact viaEquiv_getCSeq cm hd hc

theorem viaEquiv_getDialog (hF : Disj cm fromName viaName) (hT : Disj cm toName viaName) (m : Message) :
    ViaEquiv cm m (getDialog cm m).2 := by
  unfold getDialog
  split
  · exact ViaEquiv.refl cm m
  · split
    · exact ViaEquiv.refl cm m
    · rename_i f m1 hf
      have h1 := viaEquiv_getFrom cm hF hf
      split
      · exact h1
      · split
        · exact h1
        · rename_i t m2 ht
          have h2 := h1.trans cm (viaEquiv_getTo cm hT ht)
          split
          · exact h2
          · split <;> exact h2

theorem viaEquiv_getClientTransaction (hC : Disj cm cseqName viaName) (m : Message) :
    ViaEquiv cm m (getClientTransaction cm m).2 := by
  unfold getClientTransaction
  split
  · exact ViaEquiv.refl cm m
  · rename_i c m1 hc
    have h1 := viaEquiv_getCSeq cm hC hc
    split
    · exact h1
    · rename_i v m2 hv
      have h2 := h1.trans cm (viaEquiv_getVia cm hv)
      split
      · exact h2
      · split <;> exact h2

end ViaEquiv

section ViaEquivProxy
variable (cfg : Cfg)

theorem viaEquiv_handleDialog (hc : ClassesOK cfg.cm) (st : St) (a : Bytes) (p : Int) (m : Message) :
    ViaEquiv cfg.cm m (handleDialog cfg st a p m).2 := by
  unfold handleDialog
  split
  · exact ViaEquiv.refl _ m
  · -- which backend answered
    have key : ∀ (backend : Option BackendRef) (pins1 : List PinEntry) (m1 : Message),
        ViaEquiv cfg.cm m m1 →
        ViaEquiv cfg.cm m
          (match backend with
           | none => (({ st with pins := pins1 } : St), m1)
           | some b =>
             match getMethod cfg.cm m1 with
             | none => ({ st with pins := pins1 }, m1)
             | some (method, m2) =>
               if method == str "INVITE" then
                 match getDialog cfg.cm m2 with
                 | (some d, m3) =>
                   if d.isEmpty then ({ st with pins := pins1 }, m3)
                   else ({ st with pins := pinAdd pins1 d b (getExpires cfg.cm m3 0) }, m3)
                 | (none, m3) => ({ st with pins := pins1 }, m3)
               else if method == str "BYE" then
                 match getDialog cfg.cm m2 with
                 | (some d, m3) =>
                   if d.isEmpty then ({ st with pins := pins1 }, m3) else ({ st with pins := pinDel pins1 d }, m3)
                 | (none, m3) => ({ st with pins := pins1 }, m3)
               else ({ st with pins := pins1 }, m2)).2 := by
      intro backend pins1 m1 h1
      cases backend with
      | none => exact h1
      | some b =>
        simp only []
        cases hm : getMethod cfg.cm m1 with
        | none => exact h1
        | some q =>
          obtain ⟨method, m2⟩ := q
          have h2 := h1.trans _ (viaEquiv_getMethod cfg.cm hc.cseq_via hm)
          have h3 := h2.trans _ (viaEquiv_getDialog cfg.cm hc.from_via hc.to_via m2)
          simp only []
          split
          · split
            · rename_i d m3 he
              rw [he] at h3
              split <;> exact h3
            · rename_i m3 he
              rw [he] at h3; exact h3
          · split
            · split
              · rename_i d m3 he
                rw [he] at h3
                split <;> exact h3
              · rename_i m3 he
                rw [he] at h3; exact h3
            · exact h2
    have key' : ∀ T : Option BackendRef × List PinEntry × Message, ViaEquiv cfg.cm m T.2.2 →
        ViaEquiv cfg.cm m
          (match T with
           | (backend, pins1, m1) =>
             match backend with
             | none => (({ st with pins := pins1 } : St), m1)
             | some b =>
               match getMethod cfg.cm m1 with
               | none => ({ st with pins := pins1 }, m1)
               | some (method, m2) =>
                 if method == str "INVITE" then
                   match getDialog cfg.cm m2 with
                   | (some d, m3) =>
                     if d.isEmpty then ({ st with pins := pins1 }, m3)
                     else ({ st with pins := pinAdd pins1 d b (getExpires cfg.cm m3 0) }, m3)
                   | (none, m3) => ({ st with pins := pins1 }, m3)
                 else if method == str "BYE" then
                   match getDialog cfg.cm m2 with
                   | (some d, m3) =>
                     if d.isEmpty then ({ st with pins := pins1 }, m3) else ({ st with pins := pinDel pins1 d }, m3)
                   | (none, m3) => ({ st with pins := pins1 }, m3)
                 else ({ st with pins := pins1 }, m2)).2 := by
      rintro ⟨b, ps, m1⟩ h
      exact key b ps m1 h
    refine key' (if st.backends.contains (joinHostPort a p) then
        ((some (.member (joinHostPort a p)), st.pins, m) : Option BackendRef × List PinEntry × Message)
      else
        match getClientTransaction cfg.cm m with
        | (none, m') => (none, st.pins, m')
        | (some tid, m') =>
          (pinGet st.pins tid, if isFinalResponse cfg.finalClasses m' then pinDel st.pins tid else st.pins, m')) ?_
    split
    · exact ViaEquiv.refl _ m
    · have h0 := viaEquiv_getClientTransaction cfg.cm hc.cseq_via m
      split
      · rename_i m' he
        rw [he] at h0; exact h0
      · rename_i tid m' he
        rw [he] at h0; exact h0

theorem viaEquiv_rawOwnRoute (hVR : Disj cfg.cm viaName routeName) (ev : RawEv) (m : Message) :
    ViaEquiv cfg.cm m (rawOwnRoute cfg ev m) := by
  refine viaEquiv_of_view cfg.cm (sv_rawOwnRoute cfg hVR.symm ev m) ?_
  unfold rawOwnRoute
  split
  · rfl
  · rename_i r m1 hr
    have a1 := start_getRoute cfg.cm hr
    split
    · exact a1
    · split
      · exact a1
      · split
        · exact (start_popRoute_getD cfg.cm m1).trans a1
        · exact a1

/-- a response goes through `handleRawMessage` untouched except for the Route check -/
theorem handleRawMessage_response (st : St) (ev : RawEv) (h : isRequest ev.msg = false) :
    (handleRawMessage cfg st ev).2 = rawOwnRoute cfg ev ev.msg := by
  rw [handleRawMessage_msg]
  simp [rawLearn, rawStamp, rawConn, h]

/-- the message that reaches `handleMessage` when a response is received -/
theorem viaEquiv_step_response (hc : ClassesOK cfg.cm) (st : St) (ev : RawEv) (h : isRequest ev.msg = false) :
    ViaEquiv cfg.cm ev.msg
      (handleDialog cfg (handleRawMessage cfg st ev).1 ev.peerAddr ev.peerPort (handleRawMessage cfg st ev).2).2 := by
  have h1 : ViaEquiv cfg.cm ev.msg (handleRawMessage cfg st ev).2 := by
    rw [handleRawMessage_response cfg st ev h]
    exact viaEquiv_rawOwnRoute cfg hc.via_route ev ev.msg
  exact h1.trans _ (viaEquiv_handleDialog cfg hc _ _ _ _)

end ViaEquivProxy

/-! ### the response branch of `handleMessage` -/

section Response
variable (cfg : Cfg)

/-- proof-side name for the SUBSCRIBE-pinning `let` of the response branch -/
def respPin (st : St) (hop : Option Hop) (m2 : Message) : St × Message :=
  match getMethod cfg.cm m2 with
  | some (method, m') =>
    if method == str "SUBSCRIBE" then
      let addr := match hop with
        | some h => h.host ++ [58] ++ itoa h.port
        | none => [58, 48]
      if st.backends.contains addr then
        match getDialog cfg.cm m' with
        | (some d, m'') => ({ st with pins := pinAdd st.pins d (.member addr) (getExpires cfg.cm m'' 0) }, m'')
        | (none, m'') => (st, m'')
      else (st, m')
    else (st, m')
  | none => (st, m2)

theorem handleMessage_response (st : St) (ev : RawEv) (m : Message) (hresp : isRequest m = false) :
    handleMessage cfg st ev m =
      match (getNextResponseHop cfg ((popVia cfg.cm m).getD m)).1 with
      | none =>
        ((respPin cfg st none (getNextResponseHop cfg ((popVia cfg.cm m).getD m)).2).1, [])
      | some h =>
        sendMessage cfg (respPin cfg st (some h) (getNextResponseHop cfg ((popVia cfg.cm m).getD m)).2).1 h
          (respPin cfg st (some h) (getNextResponseHop cfg ((popVia cfg.cm m).getD m)).2).2 := by
  unfold handleMessage respPin
  simp only [hresp, Bool.false_eq_true, ↓reduceIte]
  rcases getNextResponseHop cfg ((popVia cfg.cm m).getD m) with ⟨hop, m2⟩
  cases hop <;> rfl

theorem viaEquiv_respPin (hc : ClassesOK cfg.cm) (st : St) (hop : Option Hop) (m : Message) :
    ViaEquiv cfg.cm m (respPin cfg st hop m).2 := by
  unfold respPin
  cases hm : getMethod cfg.cm m with
  | none => exact ViaEquiv.refl _ m
  | some q =>
    obtain ⟨method, m'⟩ := q
    have h1 := viaEquiv_getMethod cfg.cm hc.cseq_via hm
    have h2 := h1.trans _ (viaEquiv_getDialog cfg.cm hc.from_via hc.to_via m')
    simp only []
    split
    · cases hop with
      | none =>
        simp only []
        split
        · split
          · rename_i d m'' he; rw [he] at h2; exact h2
          · rename_i m'' he; rw [he] at h2; exact h2
        · exact h1
      | some h =>
        simp only []
        split
        · split
          · rename_i d m'' he; rw [he] at h2; exact h2
          · rename_i m'' he; rw [he] at h2; exact h2
        · exact h1
    · exact h1

end Response

/-! ### fixtures for the non-vacuity examples of the property files -/

section Fixtures

def exListener : Listener := { proto := str "UDP", addr := str "10.0.0.1", port := 5060 }

def exCfg : Cfg :=
  { cm := realCm, finalClasses := Generated.finalClasses, supported := Generated.supportedProtocols,
    names := [str "x"], keepNextHopRoute := false, mustRecordRoute := false,
    hosts := [(str "p1", str "10.0.0.9")], routes := [], transports0 := some exListener }

def exSt : St :=
  { learned := [(str "p1", exListener)], backends := [str "10.0.0.5:5060"],
    rr := { index := 0, backends := [str "10.0.0.5:5060"], keys := [str "10.0.0.5:5060"] } }

def exEv (m : Message) : RawEv :=
  { peerAddr := str "10.0.0.7", peerPort := 4444, frm := exListener, receivedSupport := true,
    tcpConn := none, msg := m, rxMatch := false, branch := str "z9hG4bKabc" }

def exMsgNoRoute : Message :=
  { exMsg with headers := exMsg.headers.filter (fun h => !isSameHeader realCm h.name routeName) }

/-- a response travelling back: two Via entries (the proxy's own on top), received/rport on the second -/
def exResp : Message :=
  { start := .status (str "SIP/2.0") 200 (str "OK"),
    headers := [ { name := str "Via", value := .raw (str "SIP/2.0/UDP 10.0.0.1:5060;branch=z9hG4bKabc") },
                 { name := str "v", value := .raw (str "SIP/2.0/UDP a:5070;received=10.0.0.7;rport=4444;branch=z1, SIP/2.0/TCP b") },
                 { name := str "CSeq", value := .raw (str "1 INVITE") } ],
    body := [] }

end Fixtures

/-! ### non-vacuity of the hypotheses used in this file (on the fixtures) -/

section Examples

/-- the getters of the dialog / transaction layer succeed on the example request -/
example : (getFrom realCm exMsg).isSome = true ∧ (getTo realCm exMsg).isSome = true ∧
    (getCSeq realCm exMsg).isSome = true ∧ (getDialog realCm exMsg).1.isSome = true ∧
    (getClientTransaction realCm exMsg).1 = some (str "INVITE z1") ∧
    (getMethod realCm exResp).map Prod.fst = some (str "INVITE") := by decide +kernel

/-- `step_request_out`, `step_request`, `handleMessage_request_out`, `sendMessage_out`: a request
event that is relayed, one that goes to the backend (`sendToBackend_out`) -/
example : ClassesOK exCfg.cm ∧ isRequest (exEv exMsg).msg = true ∧
    (step exCfg exSt (exEv exMsg)).2.map Out.isBackend = [false] ∧
    (step exCfg exSt (exEv exMsgNoRoute)).2.map Out.isBackend = [true] :=
  ⟨real_classesOK, by decide +kernel, by decide +kernel, by decide +kernel⟩

/-- `handleRawMessage_response`, `viaEquiv_step_response`, `handleMessage_response`: a response event
that is relayed -/
example : isRequest (exEv exResp).msg = false ∧ (step exCfg exSt (exEv exResp)).2.length = 1 := by
  decide +kernel

/-- a request over an inbound TCP connection exercises stage 3 (`rawConn`) -/
example : (rawConn exCfg exSt { exEv exMsg with tcpConn := some 3 } exMsg).1.length = 2 := by decide +kernel

/-- stage 1 decodes the Via headers of a request from a non-backend peer (second case of `rawLearn_cases`) -/
example : (rawLearn exCfg exSt (exEv exMsg)).2 ≠ exMsg := by decide +kernel

end Examples

end Lemmas
