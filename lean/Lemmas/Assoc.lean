/-
Lemmas.Assoc — laws of the association-list operations of Proxy.Model (`assocSet`, `assocGet`,
`assocDel`): the Go maps of the transport table and the learned routes.
-/
import Proxy.Model
open GoStd Proxy

namespace Lemmas

variable {β : Type}

theorem assocGet_nil (k : Bytes) : assocGet ([] : List (Bytes × β)) k = none := rfl

theorem assocGet_cons (x : Bytes × β) (l : List (Bytes × β)) (k : Bytes) :
    assocGet (x :: l) k = if x.1 = k then some x.2 else assocGet l k := by
  unfold assocGet
  by_cases h : x.1 = k <;> simp [h]

theorem assocGet_append_singleton (l : List (Bytes × β)) (k' : Bytes) (v : β) (k : Bytes) :
    assocGet (l ++ [(k', v)]) k = (assocGet l k).or (if k' = k then some v else none) := by
  induction l with
  | nil => simp [assocGet_cons, assocGet_nil]
  | cons x l ih =>
    rw [List.cons_append, assocGet_cons, assocGet_cons, ih]
    by_cases h : x.1 = k <;> simp [h]

theorem any_key_iff (l : List (Bytes × β)) (k : Bytes) :
    l.any (fun e => e.1 == k) = (assocGet l k).isSome := by
  induction l with
  | nil => rfl
  | cons x l ih =>
    rw [List.any_cons, ih, assocGet_cons]
    by_cases h : x.1 = k <;> simp [h]

theorem assocGet_map_set (l : List (Bytes × β)) (k' : Bytes) (v : β) (k : Bytes) :
    assocGet (l.map (fun e => if e.1 == k' then (k', v) else e)) k =
      if k' = k then (assocGet l k).map (fun _ => v) else assocGet l k := by
  induction l with
  | nil => simp [assocGet_nil]
  | cons x l ih =>
    rw [List.map_cons, assocGet_cons, assocGet_cons, ih]
    by_cases hx : x.1 = k'
    · by_cases hk : k' = k
      · subst hk; simp [hx]
      · have : x.1 ≠ k := fun e => hk (hx ▸ e)
        simp [hx, hk]
    · by_cases hk : k' = k
      · subst hk; simp [hx]
      · simp [hx, hk]

/-- read-after-write, same key -/
theorem assocGet_assocSet_same (l : List (Bytes × β)) (k : Bytes) (v : β) :
    assocGet (assocSet l k v) k = some v := by
  unfold assocSet
  rw [any_key_iff]
  cases h : assocGet l k with
  | none => simp [assocGet_append_singleton, h]
  | some w =>
    simp only [Option.isSome_some, ↓reduceIte]
    rw [assocGet_map_set]; simp [h]

/-- read-after-write, other key -/
theorem assocGet_assocSet_ne (l : List (Bytes × β)) (k' : Bytes) (v : β) (k : Bytes) (hne : k' ≠ k) :
    assocGet (assocSet l k' v) k = assocGet l k := by
  unfold assocSet
  split
  · rw [assocGet_map_set]; simp [hne]
  · simp [assocGet_append_singleton, hne]

theorem assocGet_assocDel (l : List (Bytes × β)) (k' k : Bytes) :
    assocGet (assocDel l k') k = if k' = k then none else assocGet l k := by
  induction l with
  | nil => simp [assocDel, assocGet_nil]
  | cons x l ih =>
    unfold assocDel at ih ⊢
    rw [List.filter_cons]
    by_cases hx : x.1 = k'
    · simp only [hx, bne_self_eq_false, Bool.false_eq_true, ↓reduceIte, ih, assocGet_cons]
      by_cases hk : k' = k <;> simp [hk]
    · have : (x.1 != k') = true := by simpa using hx
      simp only [this, ↓reduceIte, assocGet_cons, ih]
      by_cases hk : k' = k
      · subst hk; simp [hx]
      · simp [hk]

theorem assocGet_assocDel_same (l : List (Bytes × β)) (k : Bytes) : assocGet (assocDel l k) k = none := by
  simp [assocGet_assocDel]

theorem assocGet_assocDel_ne (l : List (Bytes × β)) (k' k : Bytes) (hne : k' ≠ k) :
    assocGet (assocDel l k') k = assocGet l k := by
  simp [assocGet_assocDel, hne]

end Lemmas
