/-
Lemmas.Param — laws of the key/value parameter lists (`getParam`, `hasParam`, `setParam`).
-/
import Sip.Codec
open GoStd Sip

namespace Lemmas

theorem getParam_nil (k : Bytes) : getParam [] k = none := rfl

theorem getParam_cons (p : KeyValue) (ps : List KeyValue) (k : Bytes) :
    getParam (p :: ps) k = if p.key == k then some p.value else getParam ps k := by
  simp only [getParam, List.find?_cons]
  cases p.key == k <;> rfl

theorem hasParam_cons (p : KeyValue) (ps : List KeyValue) (k : Bytes) :
    hasParam (p :: ps) k = (p.key == k || hasParam ps k) := by
  simp [hasParam]

/-- `hasParam` agrees with `getParam … ≠ none` -/
theorem hasParam_eq_isSome (ps : List KeyValue) (k : Bytes) : hasParam ps k = (getParam ps k).isSome := by
  induction ps with
  | nil => rfl
  | cons p ps ih =>
    rw [hasParam_cons, getParam_cons, ih]
    cases p.key == k <;> simp

theorem hasParam_iff (ps : List KeyValue) (k : Bytes) : hasParam ps k = true ↔ getParam ps k ≠ none := by
  rw [hasParam_eq_isSome]
  cases getParam ps k <;> simp

theorem hasParam_false_iff (ps : List KeyValue) (k : Bytes) : hasParam ps k = false ↔ getParam ps k = none := by
  rw [hasParam_eq_isSome]
  cases getParam ps k <;> simp

/-- after `setParam` the key reads back the new value (overriding whatever was there) -/
theorem getParam_setParam_same (ps : List KeyValue) (k v : Bytes) : getParam (setParam ps k v) k = some v := by
  induction ps with
  | nil => simp [setParam, getParam]
  | cons p ps ih =>
    simp only [setParam]
    cases hp : p.key == k with
    | true => simp [getParam_cons, hp]
    | false => simp [getParam_cons, hp, ih]

/-- every other key reads back what it read before -/
theorem getParam_setParam_other (ps : List KeyValue) (k k' v : Bytes) (h : k' ≠ k) :
    getParam (setParam ps k v) k' = getParam ps k' := by
  induction ps with
  | nil =>
    have : (k == k') = false := by simpa using Ne.symm h
    simp [setParam, this, getParam]
  | cons p ps ih =>
    simp only [setParam]
    cases hp : p.key == k with
    | true =>
      have hk : p.key = k := by simpa using hp
      have : (p.key == k') = false := by rw [hk]; simpa using Ne.symm h
      simp [getParam_cons, this]
    | false => simp [getParam_cons, ih]

theorem hasParam_setParam_same (ps : List KeyValue) (k v : Bytes) : hasParam (setParam ps k v) k = true := by
  rw [hasParam_eq_isSome, getParam_setParam_same]; rfl

theorem hasParam_setParam_other (ps : List KeyValue) (k k' v : Bytes) (h : k' ≠ k) :
    hasParam (setParam ps k v) k' = hasParam ps k' := by
  rw [hasParam_eq_isSome, hasParam_eq_isSome, getParam_setParam_other ps k k' v h]

/-- keys and their order: unchanged when the key was present, the key appended at the end otherwise -/
theorem setParam_keys (ps : List KeyValue) (k v : Bytes) :
    (setParam ps k v).map (·.key) = if hasParam ps k then ps.map (·.key) else ps.map (·.key) ++ [k] := by
  induction ps with
  | nil => simp [setParam, hasParam]
  | cons p ps ih =>
    simp only [setParam, hasParam_cons]
    cases hp : p.key == k with
    | true => simp
    | false =>
      simp only [Bool.false_eq_true, ↓reduceIte, List.map_cons, ih, Bool.false_or]
      cases hasParam ps k <;> simp

theorem setParam_length (ps : List KeyValue) (k v : Bytes) :
    (setParam ps k v).length = if hasParam ps k then ps.length else ps.length + 1 := by
  have := congrArg List.length (setParam_keys ps k v)
  simp only [List.length_map] at this
  rw [this]
  cases hasParam ps k <;> simp

/-- the list grows by at most one entry -/
theorem setParam_length_le (ps : List KeyValue) (k v : Bytes) :
    ps.length ≤ (setParam ps k v).length ∧ (setParam ps k v).length ≤ ps.length + 1 := by
  rw [setParam_length]
  cases hasParam ps k <;> simp

/-- all entries with another key are untouched, and stay in their order -/
theorem setParam_filter_ne (ps : List KeyValue) (k v : Bytes) :
    (setParam ps k v).filter (fun p => p.key != k) = ps.filter (fun p => p.key != k) := by
  induction ps with
  | nil => simp [setParam]
  | cons p ps ih =>
    simp only [setParam]
    cases hp : p.key == k with
    | true =>
      have hk : p.key = k := by simpa using hp
      simp [hk]
    | false =>
      have hk : p.key ≠ k := by simpa using hp
      simp [hk, ih]

/-- exact shape: the first entry with the key gets the new value, or a new entry is appended -/
theorem setParam_spec (ps : List KeyValue) (k v : Bytes) :
    (∃ pre p post, ps = pre ++ p :: post ∧ p.key = k ∧ (∀ q ∈ pre, q.key ≠ k) ∧
        setParam ps k v = pre ++ { key := k, value := v } :: post) ∨
    ((∀ q ∈ ps, q.key ≠ k) ∧ setParam ps k v = ps ++ [{ key := k, value := v }]) := by
  induction ps with
  | nil => right; simp [setParam]
  | cons p ps ih =>
    simp only [setParam]
    cases hp : p.key == k with
    | true =>
      left
      have hk : p.key = k := by simpa using hp
      exact ⟨[], p, ps, rfl, hk, by simp, by simp [hk]⟩
    | false =>
      have hk : p.key ≠ k := by simpa using hp
      rcases ih with ⟨pre, q, post, h1, h2, h3, h4⟩ | ⟨h1, h2⟩
      · left
        refine ⟨p :: pre, q, post, by simp [h1], h2, ?_, by simp [h4]⟩
        intro x hx
        rcases List.mem_cons.mp hx with rfl | hx
        · exact hk
        · exact h3 x hx
      · right
        refine ⟨?_, by simp [h2]⟩
        intro x hx
        rcases List.mem_cons.mp hx with rfl | hx
        · exact hk
        · exact h1 x hx

/-- non-vacuity: overriding a present key, appending an absent one -/
example : setParam [⟨[1], [2]⟩, ⟨[3], [4]⟩, ⟨[3], [5]⟩] [3] [9] = [⟨[1], [2]⟩, ⟨[3], [9]⟩, ⟨[3], [5]⟩] := by decide
example : setParam [⟨[1], [2]⟩] [3] [9] = [⟨[1], [2]⟩, ⟨[3], [9]⟩] := by decide
example : getParam (setParam [⟨[1], [2]⟩] [3] [9]) [1] = getParam [⟨[1], [2]⟩] [1] :=
  getParam_setParam_other _ _ _ _ (by decide)

end Lemmas
