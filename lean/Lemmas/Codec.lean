/-
Lemmas.Codec — helper laws for the typed header codec (Sip.Codec): parameters, host:port,
user-info, white-space fields, comma lists. Property C14 (Props/C14.lean) is assembled from these.
Core Lean only.
-/
import Lemmas.Literal
import Sip.Codec
import Lemmas.Bytes
import Lemmas.Num
open GoStd Sip

namespace Lemmas

/-! ### model string constants as byte lists
`str` goes through `String.toUTF8`, which the elaborator's `decide` does not unfold; the kernel
evaluates it (no extra axioms: see Audit/C14.lean). -/

theorem str_sip : str "sip" = [115, 105, 112] := by decide +kernel
theorem str_sips : str "sips" = [115, 105, 112, 115] := by decide +kernel
theorem sipPrefix_eq : sipPrefix = [115, 105, 112, 58] := by decide +kernel
theorem sipsPrefix_eq : sipsPrefix = [115, 105, 112, 115, 58] := by decide +kernel

/-! ### key/value parameters -/

/-- decode ∘ encode = id for one parameter whose key has no '='; the value may be empty (flag
parameter such as `lr` or `rport`) and may itself contain '='. -/
theorem parseKV_encode (kv : KeyValue) (hk : (61 : UInt8) ∉ kv.key) : parseKV kv.encode = kv := by
  obtain ⟨k, v⟩ := kv
  cases v with
  | nil => simp [KeyValue.encode, parseKV, cut_of_not_mem 61 k hk]
  | cons b bs =>
    simp [KeyValue.encode, parseKV, cut_append_of_not_mem 61 k (b :: bs) hk]

/-- The key produced by `parseKV` never contains '='. -/
theorem parseKV_key_no_eq (s : Bytes) : (61 : UInt8) ∉ (parseKV s).key := by
  unfold parseKV
  cases h : cut 61 s with
  | none => exact (cut_eq_none_iff 61 s).mp h
  | some p =>
    obtain ⟨l, r⟩ := p
    exact (cut_some 61 s l r h).2

/-- Normalisation is stable on ARBITRARY input: decoding the re-encoding of a decoded parameter
gives the same parameter. -/
theorem parseKV_encode_parseKV (s : Bytes) : parseKV (parseKV s).encode = parseKV s :=
  parseKV_encode _ (parseKV_key_no_eq s)

/-- The only distortion `parseKV`/`encode` can introduce on arbitrary input: a bare trailing '='
after a key (`k=`) is dropped. Everything else is re-encoded byte-identically. -/
theorem encode_parseKV (s : Bytes) :
    (parseKV s).encode = s ∨ ∃ k, (61 : UInt8) ∉ k ∧ s = k ++ [61] ∧ (parseKV s).encode = k := by
  unfold parseKV
  cases h : cut 61 s with
  | none => left; simp [KeyValue.encode]
  | some p =>
    obtain ⟨l, r⟩ := p
    obtain ⟨hs, hl⟩ := cut_some 61 s l r h
    cases r with
    | nil => right; exact ⟨l, hl, by simpa using hs, by simp [KeyValue.encode]⟩
    | cons b bs => left; simp [KeyValue.encode, hs]

theorem mem_kv_encode {c : UInt8} {kv : KeyValue} (h : c ∈ kv.encode) :
    c ∈ kv.key ∨ c = 61 ∨ c ∈ kv.value := by
  unfold KeyValue.encode at h
  split at h
  · simp only [List.append_assoc, List.mem_append, List.mem_singleton] at h
    exact h
  · exact Or.inl h

theorem not_mem_kv_encode {c : UInt8} {kv : KeyValue} (hc : c ≠ 61) (hk : c ∉ kv.key)
    (hv : c ∉ kv.value) : c ∉ kv.encode := fun h => by
  rcases mem_kv_encode h with h | h | h
  · exact hk h
  · exact hc h
  · exact hv h

theorem kv_encode_ne_nil {kv : KeyValue} (hk : kv.key ≠ []) : kv.encode ≠ [] := by
  unfold KeyValue.encode
  split <;> simp [hk]

theorem parseGenericParam_encode (kv : KeyValue) (hk : (61 : UInt8) ∉ kv.key) (hne : kv.key ≠ []) :
    parseGenericParam kv.encode = some kv := by
  have h : kv.encode ≠ [] := kv_encode_ne_nil hne
  have hl : ¬ kv.encode.length ≤ 0 := by
    cases he : kv.encode with
    | nil => exact absurd he h
    | cons _ _ => simp
  simp only [parseGenericParam, hl, ↓reduceIte, parseKV_encode kv hk]

/-- `getParam` returns the value of the FIRST parameter with that key. -/
theorem getParam_first (pre post : List KeyValue) (name v : Bytes) (h : ∀ q ∈ pre, q.key ≠ name) :
    getParam (pre ++ { key := name, value := v } :: post) name = some v := by
  induction pre with
  | nil => simp [getParam]
  | cons q qs ih =>
    have hq : (q.key == name) = false := by simpa using h q (by simp)
    have := ih (fun x hx => h x (by simp [hx]))
    simp only [getParam, List.cons_append, List.find?_cons, hq] at this ⊢
    exact this

theorem getParam_none (ps : List KeyValue) (name : Bytes) (h : ∀ q ∈ ps, q.key ≠ name) :
    getParam ps name = none := by
  induction ps with
  | nil => simp [getParam]
  | cons q qs ih =>
    have hq : (q.key == name) = false := by simpa using h q (by simp)
    have := ih (fun x hx => h x (by simp [hx]))
    simp only [getParam, List.find?_cons, hq] at this ⊢
    exact this

/-! ### `;`-parameter lists (URI parameters, Via parameters, generic header parameters) -/

theorem encodeSemiParams_cons (p : KeyValue) (ps : List KeyValue) :
    encodeSemiParams (p :: ps) = 59 :: (p.encode ++ encodeSemiParams ps) := by
  simp [encodeSemiParams]

theorem encodeUriParams_eq_semi (ps : List KeyValue) : encodeUriParams ps = encodeSemiParams ps := by
  induction ps with
  | nil => rfl
  | cons p ps ih => simp [encodeUriParams, encodeSemiParams, ih]

/-- The shape used by the Go writers: a ';' in front of every element. -/
theorem encodeSemiParams_eq_join (ps : List KeyValue) (hne : ps ≠ []) :
    encodeSemiParams ps = 59 :: join [59] (ps.map KeyValue.encode) := by
  induction ps with
  | nil => exact absurd rfl hne
  | cons p qs ih =>
    cases qs with
    | nil => simp [encodeSemiParams, join]
    | cons q rs =>
      have := ih (by simp)
      rw [encodeSemiParams_cons, this]
      simp [join]

theorem encodeUriParams_eq_join (ps : List KeyValue) (hne : ps ≠ []) :
    encodeUriParams ps = 59 :: join [59] (ps.map KeyValue.encode) := by
  rw [encodeUriParams_eq_semi, encodeSemiParams_eq_join ps hne]

theorem mem_encodeSemiParams {c : UInt8} {ps : List KeyValue} (h : c ∈ encodeSemiParams ps) :
    c = 59 ∨ c = 61 ∨ ∃ p ∈ ps, c ∈ p.key ∨ c ∈ p.value := by
  induction ps with
  | nil => simp [encodeSemiParams] at h
  | cons p ps ih =>
    simp only [encodeSemiParams_cons, List.mem_cons, List.mem_append] at h
    rcases h with h | h | h
    · exact Or.inl h
    · rcases mem_kv_encode h with h | h | h
      · exact Or.inr (Or.inr ⟨p, by simp, Or.inl h⟩)
      · exact Or.inr (Or.inl h)
      · exact Or.inr (Or.inr ⟨p, by simp, Or.inr h⟩)
    · rcases ih h with h | h | ⟨q, hq, h⟩
      · exact Or.inl h
      · exact Or.inr (Or.inl h)
      · exact Or.inr (Or.inr ⟨q, by simp [hq], h⟩)

theorem not_mem_encodeSemiParams {c : UInt8} {ps : List KeyValue} (h1 : c ≠ 59) (h2 : c ≠ 61)
    (h : ∀ p ∈ ps, c ∉ p.key ∧ c ∉ p.value) : c ∉ encodeSemiParams ps := fun hm => by
  rcases mem_encodeSemiParams hm with e | e | ⟨p, hp, e⟩
  · exact h1 e
  · exact h2 e
  · rcases e with e | e
    · exact (h p hp).1 e
    · exact (h p hp).2 e

/-- Splitting `x;p1;p2;…` at ';' gives back `x` and the encoded parameters, one by one. -/
theorem split_semi (x : Bytes) (ps : List KeyValue) (hx : (59 : UInt8) ∉ x)
    (hps : ∀ p ∈ ps, (59 : UInt8) ∉ p.encode) :
    split 59 (x ++ encodeSemiParams ps) = x :: ps.map KeyValue.encode := by
  induction ps generalizing x with
  | nil => simp [encodeSemiParams, split_of_not_mem 59 x hx]
  | cons p ps ih =>
    have hp := hps p (by simp)
    have := ih p.encode hp (fun q hq => hps q (by simp [hq]))
    rw [encodeSemiParams_cons, split_append_sep 59 x _ hx, this, List.map_cons]

theorem map_parseKV_encode (ps : List KeyValue) (h : ∀ p ∈ ps, (61 : UInt8) ∉ p.key) :
    (ps.map KeyValue.encode).map parseKV = ps := by
  induction ps with
  | nil => rfl
  | cons p ps ih =>
    simp only [List.map_cons, parseKV_encode p (h p (by simp)),
      ih (fun q hq => h q (by simp [hq]))]

/-! ### `mapM?` and comma lists -/

theorem mapM?_map {α β : Type} (f : β → Option α) (g : α → β) (xs : List α)
    (h : ∀ x ∈ xs, f (g x) = some x) : mapM? f (xs.map g) = some xs := by
  induction xs with
  | nil => rfl
  | cons x xs ih =>
    simp only [List.map_cons, mapM?, h x (by simp), ih (fun y hy => h y (by simp [hy]))]

theorem encodeCommaList_eq_join {α : Type} (enc : α → Bytes) (xs : List α) :
    encodeCommaList enc xs = join [44] (xs.map enc) := by
  induction xs with
  | nil => rfl
  | cons x ys ih =>
    cases ys with
    | nil => rfl
    | cons y zs =>
      simp only [encodeCommaList, List.map_cons, join] at ih ⊢
      rw [ih]

/-- A comma list of ','-free elements that each round-trip, round-trips. -/
theorem commaList_roundtrip {α : Type} (parse : Bytes → Option α) (enc : α → Bytes) (xs : List α)
    (hne : xs ≠ []) (h : ∀ x ∈ xs, (44 : UInt8) ∉ enc x ∧ parse (enc x) = some x) :
    mapM? parse (split 44 (encodeCommaList enc xs)) = some xs := by
  rw [encodeCommaList_eq_join, split_join 44 (xs.map enc) (by simpa using hne)]
  · exact mapM?_map parse enc xs (fun x hx => (h x hx).2)
  · intro p hp
    simp only [List.mem_map] at hp
    obtain ⟨x, hx, rfl⟩ := hp
    exact (h x hx).1

/-! ### byte-set side conditions -/

/-- "`s` contains none of the bytes `cs`" (the form every domain predicate takes). -/
def NoneOf (cs : List UInt8) (s : Bytes) : Prop := ∀ c ∈ cs, c ∉ s

instance (cs : List UInt8) (s : Bytes) : Decidable (NoneOf cs s) := by unfold NoneOf; infer_instance

theorem NoneOf.get {cs : List UInt8} {s : Bytes} (h : NoneOf cs s) (c : UInt8) (hc : c ∈ cs := by decide) :
    c ∉ s := h c hc

/-! ### decimal numbers inside texts -/

theorem itoa_nonneg_eq (p : Int) (hp : 0 ≤ p) : itoa p = natToBytes p.toNat := by
  cases p with
  | ofNat n => simp [itoa]
  | negSucc n => omega

theorem mem_itoa {p : Int} (hp : 0 ≤ p) {b : UInt8} (hb : b ∈ itoa p) : 48 ≤ b ∧ b ≤ 57 := by
  rw [itoa_nonneg_eq p hp] at hb
  exact natToBytes_digits _ b hb

/-- a byte outside '0'..'9' does not occur in a printed non-negative number -/
theorem not_mem_itoa {p : Int} (hp : 0 ≤ p) (c : UInt8) (hc : c < 48 ∨ 57 < c := by decide) : c ∉ itoa p := by
  intro h
  obtain ⟨h1, h2⟩ := mem_itoa hp h
  rw [UInt8.le_iff_toNat_le] at h1 h2
  rw [UInt8.lt_iff_toNat_lt, UInt8.lt_iff_toNat_lt] at hc
  simp at h1 h2 hc
  omega

theorem itoa_ne_nil {p : Int} (hp : 0 ≤ p) : itoa p ≠ [] := by
  rw [itoa_nonneg_eq p hp]; exact (natToBytes_spec _).2.1

theorem atoi_itoa {p : Int} (hp : 0 ≤ p) (h : p ≤ 9223372036854775807) : atoi (itoa p) = some p := by
  cases p with
  | ofNat n => exact atoi_itoa_nonneg n (by simp only [Int.ofNat_eq_natCast] at h; omega)
  | negSucc n => omega

/-! ### host[:port] and user[:password]@ -/

/-- the host/port text both `SIPURI._Write` and `ViaParam.String` produce -/
def hostPortText (host : Bytes) (port : Int) : Bytes :=
  if port != 0 then host ++ [58] ++ itoa port else host

def userInfoText (user password : Bytes) : Bytes :=
  if user.length > 0 then
    (if password.length > 0 then user ++ [58] ++ password ++ [64] else user ++ [64])
  else []

theorem not_mem_hostPortText {host : Bytes} {port : Int} (hp : 0 ≤ port) (c : UInt8) (hh : c ∉ host)
    (h58 : c ≠ 58) (hc : c < 48 ∨ 57 < c) : c ∉ hostPortText host port := by
  unfold hostPortText
  split
  · simp only [List.append_assoc, List.mem_append, List.mem_singleton, not_or]
    exact ⟨hh, h58, not_mem_itoa hp c hc⟩
  · exact hh

theorem parseHostPort_text (host : Bytes) (port : Int) (hh : (58 : UInt8) ∉ host) (hp : 0 ≤ port)
    (hp2 : port ≤ 9223372036854775807) : parseHostPort (hostPortText host port) = (host, port) := by
  unfold hostPortText parseHostPort
  by_cases h0 : port = 0
  · simp [h0, cut_of_not_mem 58 host hh]
  · simp [h0, cut_append_of_not_mem 58 host _ hh, atoi_itoa hp hp2]

/-! ### SIP URI: the three cuts of `parseSipURI` as named steps -/

/-- step 1 of `parseSipURI`: cut the `?headers` part off -/
def uriSplitHeaders (s0 : Bytes) : Bytes × List KeyValue :=
  match cut 63 s0 with
  | none => (s0, [])
  | some (l, r) => (l, parseUriHeader r)

/-- step 2: cut the `;params` part off -/
def uriSplitParams (s1 : Bytes) : Bytes × List KeyValue :=
  match cut 59 s1 with
  | none => (s1, [])
  | some (l, r) => (l, parseUriParameters r)

/-- step 3: `[user[:password]@]host[:port]` -/
def uriCore (scheme s2 : Bytes) (params headers : List KeyValue) : SIPURI :=
  match cut 64 s2 with
  | some (ui, hp) =>
    { scheme := scheme, user := (parseUserInfo ui).1, password := (parseUserInfo ui).2,
      host := (parseHostPort hp).1, port := (parseHostPort hp).2, params := params, headers := headers }
  | none =>
    { scheme := scheme, host := (parseHostPort s2).1, port := (parseHostPort s2).2,
      params := params, headers := headers }

def uriSteps (scheme s0 : Bytes) : SIPURI :=
  uriCore scheme (uriSplitParams (uriSplitHeaders s0).1).1 (uriSplitParams (uriSplitHeaders s0).1).2
    (uriSplitHeaders s0).2

theorem parseSipURI_sip (s0 : Bytes) :
    parseSipURI (str "sip" ++ 58 :: s0) = some (uriSteps (str "sip") s0) := by
  unfold parseSipURI uriSteps uriCore uriSplitParams uriSplitHeaders
  rw [sipPrefix_eq, sipsPrefix_eq, str_sip]
  simp only [hasPrefix, List.cons_append, List.nil_append, List.isPrefixOf, beq_self_eq_true,
    Bool.and_self, ↓reduceIte, List.drop_succ_cons, List.drop_zero]
  cases cut 63 s0 with
  | none =>
    cases cut 59 s0 with
    | none => cases cut 64 s0 <;> rfl
    | some p => cases cut 64 p.1 <;> rfl
  | some q =>
    cases cut 59 q.1 with
    | none => cases cut 64 q.1 <;> rfl
    | some p => cases cut 64 p.1 <;> rfl

theorem parseSipURI_sips (s0 : Bytes) :
    parseSipURI (str "sips" ++ 58 :: s0) = some (uriSteps (str "sips") s0) := by
  unfold parseSipURI uriSteps uriCore uriSplitParams uriSplitHeaders
  rw [sipPrefix_eq, sipsPrefix_eq, str_sips]
  have h : ((58 : UInt8) == 115) = false := by decide
  simp only [hasPrefix, List.cons_append, List.nil_append, List.isPrefixOf, beq_self_eq_true,
    Bool.and_self, Bool.false_and, Bool.and_false, h, Bool.false_eq_true,
    ↓reduceIte, List.drop_succ_cons, List.drop_zero]
  cases cut 63 s0 with
  | none =>
    cases cut 59 s0 with
    | none => cases cut 64 s0 <;> rfl
    | some p => cases cut 64 p.1 <;> rfl
  | some q =>
    cases cut 59 q.1 with
    | none => cases cut 64 q.1 <;> rfl
    | some p => cases cut 64 p.1 <;> rfl

/-! URI headers `?k=v&k=v` -/

/-- one URI header as written by `SIPURI._Write`: the '=' is always present -/
def hdrText (h : KeyValue) : Bytes := h.key ++ 61 :: h.value

theorem encodeUriHeaders_cons (first : Bool) (h : KeyValue) (hs : List KeyValue) :
    encodeUriHeaders first (h :: hs)
      = (if first then 63 else 38) :: (hdrText h ++ encodeUriHeaders false hs) := by
  cases first <;> simp [encodeUriHeaders, hdrText]

theorem split_amp (x : Bytes) (hs : List KeyValue) (hx : (38 : UInt8) ∉ x)
    (hhs : ∀ h ∈ hs, (38 : UInt8) ∉ hdrText h) :
    split 38 (x ++ encodeUriHeaders false hs) = x :: hs.map hdrText := by
  induction hs generalizing x with
  | nil => simp [encodeUriHeaders, split_of_not_mem 38 x hx]
  | cons h hs ih =>
    have := ih (hdrText h) (hhs h (by simp)) (fun q hq => hhs q (by simp [hq]))
    rw [encodeUriHeaders_cons]
    simp only [Bool.false_eq_true, ↓reduceIte]
    rw [split_append_sep 38 x _ hx, this, List.map_cons]

theorem parseUriHeaderList_text (hs : List KeyValue) (h : ∀ x ∈ hs, (61 : UInt8) ∉ x.key) :
    parseUriHeaderList (hs.map hdrText) = hs := by
  induction hs with
  | nil => rfl
  | cons x xs ih =>
    have hx := h x (by simp)
    simp only [List.map_cons, parseUriHeaderList, hdrText, cut_append_of_not_mem 61 x.key x.value hx,
      ih (fun y hy => h y (by simp [hy]))]

theorem not_mem_hdrText {c : UInt8} {h : KeyValue} (hc : c ≠ 61) (hk : c ∉ h.key) (hv : c ∉ h.value) :
    c ∉ hdrText h := by
  simp only [hdrText, List.mem_append, List.mem_cons, not_or]
  exact ⟨hk, hc, hv⟩

theorem uriSplitHeaders_text (pre : Bytes) (hs : List KeyValue) (hpre : (63 : UInt8) ∉ pre)
    (h : ∀ x ∈ hs, (61 : UInt8) ∉ x.key ∧ (38 : UInt8) ∉ x.key ∧ (38 : UInt8) ∉ x.value) :
    uriSplitHeaders (pre ++ encodeUriHeaders true hs) = (pre, hs) := by
  unfold uriSplitHeaders
  cases hs with
  | nil => simp [encodeUriHeaders, cut_of_not_mem 63 pre hpre]
  | cons x xs =>
    rw [encodeUriHeaders_cons]
    simp only [↓reduceIte]
    rw [cut_append_of_not_mem 63 pre _ hpre]
    simp only [parseUriHeader]
    rw [split_amp (hdrText x) xs
        (not_mem_hdrText (by decide) (h x (by simp)).2.1 (h x (by simp)).2.2)
        (fun y hy => not_mem_hdrText (by decide) (h y (by simp [hy])).2.1 (h y (by simp [hy])).2.2)]
    rw [← List.map_cons, parseUriHeaderList_text (x :: xs) (fun y hy => (h y hy).1)]

/-! URI parameters `;k[=v];k[=v]` -/

theorem uriSplitParams_text (pre : Bytes) (ps : List KeyValue) (hpre : (59 : UInt8) ∉ pre)
    (h : ∀ p ∈ ps, (61 : UInt8) ∉ p.key ∧ (59 : UInt8) ∉ p.encode) :
    uriSplitParams (pre ++ encodeSemiParams ps) = (pre, ps) := by
  unfold uriSplitParams
  cases ps with
  | nil => simp [encodeSemiParams, cut_of_not_mem 59 pre hpre]
  | cons x xs =>
    rw [encodeSemiParams_cons, cut_append_of_not_mem 59 pre _ hpre]
    simp only [parseUriParameters]
    have := split_semi x.encode xs (h x (by simp)).2 (fun y hy => (h y (by simp [hy])).2)
    rw [this, ← List.map_cons, map_parseKV_encode (x :: xs) (fun y hy => (h y hy).1)]

/-! user-info and host:port -/

theorem uriCore_text (scheme user password host : Bytes) (port : Int) (params headers : List KeyValue)
    (hu1 : (64 : UInt8) ∉ user) (hu2 : (58 : UInt8) ∉ user) (hpw : (64 : UInt8) ∉ password)
    (hpu : password ≠ [] → user ≠ [])
    (hh1 : (64 : UInt8) ∉ host) (hh2 : (58 : UInt8) ∉ host)
    (hp : 0 ≤ port) (hp2 : port ≤ 9223372036854775807) :
    uriCore scheme (userInfoText user password ++ hostPortText host port) params headers
      = { scheme := scheme, user := user, password := password, host := host, port := port,
          params := params, headers := headers } := by
  have hhp : (64 : UInt8) ∉ hostPortText host port :=
    not_mem_hostPortText hp 64 hh1 (by decide) (by decide)
  have hhpt := parseHostPort_text host port hh2 hp hp2
  unfold uriCore userInfoText
  by_cases hu : user = []
  · subst hu
    have : password = [] := by
      cases password with
      | nil => rfl
      | cons b bs => exact absurd rfl (hpu (by simp))
    subst this
    simp only [List.length_nil, gt_iff_lt, Nat.lt_irrefl, ↓reduceIte, List.nil_append]
    rw [cut_of_not_mem 64 _ hhp]
    simp only [hhpt]
  · have hul : user.length > 0 := List.length_pos_iff.mpr hu
    simp only [hul, ↓reduceIte]
    by_cases hp0 : password = []
    · subst hp0
      simp only [List.length_nil, gt_iff_lt, Nat.lt_irrefl, ↓reduceIte]
      rw [List.append_assoc, List.singleton_append, cut_append_of_not_mem 64 user _ hu1]
      simp only [parseUserInfo, cut_of_not_mem 58 user hu2, hhpt]
    · have hpl : password.length > 0 := List.length_pos_iff.mpr hp0
      simp only [hpl, ↓reduceIte]
      have h1 : (64 : UInt8) ∉ user ++ 58 :: password := by
        simp only [List.mem_append, List.mem_cons, not_or]
        exact ⟨hu1, by decide, hpw⟩
      have e : user ++ [58] ++ password ++ [64] ++ hostPortText host port
          = (user ++ 58 :: password) ++ 64 :: hostPortText host port := by simp
      rw [e, cut_append_of_not_mem 64 _ _ h1]
      simp only [parseUserInfo, cut_append_of_not_mem 58 user password hu2, hhpt]


theorem not_mem_userInfoText {user password : Bytes} (c : UInt8) (hu : c ∉ user) (hpw : c ∉ password)
    (h58 : c ≠ 58) (h64 : c ≠ 64) : c ∉ userInfoText user password := by
  unfold userInfoText
  split
  · split
    · simp only [List.append_assoc, List.mem_append, List.mem_singleton, not_or]
      exact ⟨hu, h58, hpw, h64⟩
    · simp only [List.mem_append, List.mem_singleton, not_or]
      exact ⟨hu, h64⟩
  · simp

/-- `SIPURI.encode` as scheme ':' user-info host-port params headers -/
theorem sipuri_encode_eq (u : SIPURI) :
    u.encode = u.scheme ++ 58 :: (((userInfoText u.user u.password ++ hostPortText u.host u.port)
      ++ encodeSemiParams u.params) ++ encodeUriHeaders true u.headers) := by
  simp [SIPURI.encode, SIPURI.write, userInfoText, hostPortText, encodeUriParams_eq_semi]

/-! ### addr-spec, name-addr -/

theorem hasPrefix_sip (s0 : Bytes) : hasPrefix sipPrefix (str "sip" ++ 58 :: s0) = true := by
  rw [sipPrefix_eq, str_sip]; simp [hasPrefix, List.isPrefixOf]

theorem hasPrefix_sips (s0 : Bytes) : hasPrefix sipsPrefix (str "sips" ++ 58 :: s0) = true := by
  rw [sipsPrefix_eq, str_sips]; simp [hasPrefix, List.isPrefixOf]

theorem not_mem_encodeUriHeaders {c : UInt8} {first : Bool} {hs : List KeyValue} (h63 : c ≠ 63)
    (h38 : c ≠ 38) (h61 : c ≠ 61) (h : ∀ x ∈ hs, c ∉ x.key ∧ c ∉ x.value) :
    c ∉ encodeUriHeaders first hs := by
  induction hs generalizing first with
  | nil => simp [encodeUriHeaders]
  | cons x xs ih =>
    rw [encodeUriHeaders_cons]
    simp only [List.mem_cons, List.mem_append, not_or]
    refine ⟨?_, not_mem_hdrText h61 (h x (by simp)).1 (h x (by simp)).2,
      ih (fun y hy => h y (by simp [hy]))⟩
    cases first <;> simp [h63, h38]

/-- A byte that is no URI delimiter and no digit occurs in the text of a URI only if it occurs in
one of its components. -/
theorem not_mem_sipuri_encode (u : SIPURI) (c : UInt8) (hp : 0 ≤ u.port)
    (hdelim : c ∉ [58, 64, 59, 61, 63, 38]) (hdig : c < 48 ∨ 57 < c)
    (hsc : c ∉ u.scheme) (hus : c ∉ u.user) (hpw : c ∉ u.password) (hho : c ∉ u.host)
    (hps : ∀ p ∈ u.params, c ∉ p.key ∧ c ∉ p.value)
    (hhs : ∀ x ∈ u.headers, c ∉ x.key ∧ c ∉ x.value) : c ∉ u.encode := by
  simp only [List.mem_cons, List.not_mem_nil, or_false, not_or] at hdelim
  obtain ⟨h58, h64, h59, h61, h63, h38⟩ := hdelim
  rw [sipuri_encode_eq]
  simp only [List.mem_append, List.mem_cons, not_or]
  exact ⟨hsc, h58, ⟨⟨not_mem_userInfoText c hus hpw h58 h64, not_mem_hostPortText hp c hho h58 hdig⟩,
    not_mem_encodeSemiParams h59 h61 hps⟩, not_mem_encodeUriHeaders h63 h38 h61 hhs⟩

/-- `ParseNameAddr` on `display<inner>`: the display name and the text between the angle brackets
are found exactly. -/
theorem parseNameAddr_text (d inner : Bytes) (hd1 : (60 : UInt8) ∉ d) (hd2 : (62 : UInt8) ∉ d)
    (hi : (62 : UInt8) ∉ inner) :
    parseNameAddr (d ++ [60] ++ inner ++ [62])
      = (parseAddrSpec inner).map fun a => { display := d, addr := a } := by
  have e1 : d ++ [60] ++ inner ++ [62] = d ++ 60 :: (inner ++ [62]) := by simp
  have e2 : d ++ [60] ++ inner ++ [62] = (d ++ 60 :: inner) ++ 62 :: [] := by simp
  have h2 : (62 : UInt8) ∉ d ++ 60 :: inner := by
    simp only [List.mem_append, List.mem_cons, not_or]
    exact ⟨hd2, by decide, hi⟩
  have c1 := cut_append_of_not_mem 60 d (inner ++ [62]) hd1
  have c2 := cut_append_of_not_mem 62 _ [] h2
  have c3 := cut_append_of_not_mem 62 inner [] hi
  rw [← e1] at c1
  rw [← e2] at c2
  unfold parseNameAddr
  rw [c1, c2]
  have hl : ¬ (d ++ 60 :: inner).length < d.length := by simp
  simp only [hl, ↓reduceIte, c3]

/-! ### white-space fields (`strings.Fields`) -/

/-- no Go white-space rune starts with this byte: not an ASCII blank and not one of the UTF-8
lead bytes C2 E1 E2 E3 (every ASCII non-blank byte qualifies, see `plain_of_ascii`) -/
def noSpaceStart (b : UInt8) : Bool :=
  !(isAsciiSpace b || b == 0xC2 || b == 0xE1 || b == 0xE2 || b == 0xE3)

/-- a byte string inside which no white-space rune starts -/
def Plain (s : Bytes) : Prop := ∀ b ∈ s, noSpaceStart b = true

instance (s : Bytes) : Decidable (Plain s) := by unfold Plain; infer_instance

theorem Plain.append {a b : Bytes} (ha : Plain a) (hb : Plain b) : Plain (a ++ b) := by
  intro x hx
  rcases List.mem_append.mp hx with h | h
  · exact ha x h
  · exact hb x h

theorem plain_of_ascii (s : Bytes) (h : ∀ b ∈ s, b < 128 ∧ isAsciiSpace b = false) : Plain s := by
  intro b hb
  obtain ⟨h1, h2⟩ := h b hb
  have : b ≠ 0xC2 ∧ b ≠ 0xE1 ∧ b ≠ 0xE2 ∧ b ≠ 0xE3 := by
    refine ⟨?_, ?_, ?_, ?_⟩ <;> (intro e; subst e; revert h1; decide)
  simp [noSpaceStart, h2, this]

theorem plain_itoa {p : Int} (hp : 0 ≤ p) : Plain (itoa p) := by
  apply plain_of_ascii
  intro b hb
  obtain ⟨h1, h2⟩ := mem_itoa hp hb
  rw [UInt8.le_iff_toNat_le] at h1 h2
  have e : b = UInt8.ofNat b.toNat := by simp
  have : b.toNat ∈ [48, 49, 50, 51, 52, 53, 54, 55, 56, 57] := by
    simp at h1 h2 ⊢; omega
  rw [e]
  simp only [List.mem_cons, List.not_mem_nil, or_false] at this
  rcases this with h | h | h | h | h | h | h | h | h | h <;> rw [h] <;> decide

theorem spaceTokLen_cons_plain (b : UInt8) (rest : Bytes) (h : noSpaceStart b = true) :
    spaceTokLen (b :: rest) = 0 := by
  simp only [noSpaceStart, Bool.not_eq_true', Bool.or_eq_false_iff] at h
  obtain ⟨⟨⟨⟨h1, h2⟩, h3⟩, h4⟩, h5⟩ := h
  simp [spaceTokLen, h1, h2, h3, h4, h5]

theorem fieldsAux_plain (a r cur : Bytes) (f : Nat) (ha : Plain a) :
    fieldsAux (a.length + f) (a ++ r) cur = fieldsAux f r (a.reverse ++ cur) := by
  induction a generalizing cur with
  | nil => simp
  | cons b bs ih =>
    have hb := spaceTokLen_cons_plain b (bs ++ r) (ha b (by simp))
    have hl : (b :: bs).length + f = (bs.length + f) + 1 := by simp only [List.length_cons]; omega
    rw [hl, List.cons_append]
    simp only [fieldsAux, hb, ↓reduceIte]
    rw [ih _ (fun x hx => ha x (by simp [hx]))]
    simp

/-- one plain word is one field -/
theorem fieldsAux_last (b cur : Bytes) (hb : Plain b) (hne : b ≠ [] ∨ cur ≠ []) :
    fieldsAux (b.length + 1) b cur = [cur.reverse ++ b] := by
  have := fieldsAux_plain b [] cur 1 hb
  rw [List.append_nil] at this
  rw [this]
  have hne' : (b.reverse ++ cur).isEmpty = false := by
    rcases hne with h | h
    · cases hb' : b.reverse with
      | nil => simp at hb'; exact absurd hb' h
      | cons _ _ => rfl
    · cases hc : cur with
      | nil => exact absurd hc h
      | cons _ _ => simp
  simp [fieldsAux, hne']

/-- `strings.Fields("a b") = ["a","b"]` for non-empty words in which no white space starts. -/
theorem fields_two (a b : Bytes) (ha : Plain a) (hb : Plain b) (hane : a ≠ []) (hbne : b ≠ []) :
    fields (a ++ [32] ++ b) = [a, b] := by
  unfold fields
  have hl : (a ++ [32] ++ b).length + 1 = a.length + ((b.length + 1) + 1) := by
    simp only [List.length_append, List.length_cons, List.length_nil]; omega
  rw [hl, List.append_assoc, fieldsAux_plain a _ [] _ ha]
  have h32 : spaceTokLen (32 :: b) = 1 := by simp [spaceTokLen, isAsciiSpace]
  have hae : (a.reverse ++ []).isEmpty = false := by
    cases h : a.reverse with
    | nil => simp at h; exact absurd h hane
    | cons _ _ => rfl
  simp only [List.singleton_append, fieldsAux, h32, Nat.succ_ne_zero, ↓reduceIte, hae,
    List.drop_succ_cons, List.drop_zero]
  rw [fieldsAux_last b [] hb (Or.inl hbne)]
  simp


/-! ### Via element -/

theorem plain_hostPortText {host : Bytes} {port : Int} (hh : Plain host) (hp : 0 ≤ port) :
    Plain (hostPortText host port) := by
  unfold hostPortText
  split
  · exact (hh.append (by decide : Plain [58])).append (plain_itoa hp)
  · exact hh

theorem hostPortText_ne_nil {host : Bytes} {port : Int} (hh : host ≠ []) : hostPortText host port ≠ [] := by
  unfold hostPortText
  split <;> simp [hh]

theorem split_hostPortText (host : Bytes) (port : Int) (hh : (58 : UInt8) ∉ host) (hp : 0 ≤ port) :
    split 58 (hostPortText host port) = if port = 0 then [host] else [host, itoa port] := by
  unfold hostPortText
  by_cases h0 : port = 0
  · simp [h0, split_of_not_mem 58 host hh]
  · simp only [bne_iff_ne, ne_eq, h0, not_false_eq_true, ↓reduceIte, List.append_assoc,
      List.singleton_append]
    rw [split_append_sep 58 host _ hh, split_of_not_mem 58 _ (not_mem_itoa hp 58)]

theorem viaparam_encode_eq (vp : ViaParam) :
    vp.encode = ((vp.protoName ++ 47 :: (vp.protoVersion ++ 47 :: vp.transport)) ++ [32]
      ++ hostPortText vp.host vp.port) ++ encodeSemiParams vp.params := by
  simp [ViaParam.encode, hostPortText]

theorem split_slash3 (a b c : Bytes) (ha : (47 : UInt8) ∉ a) (hb : (47 : UInt8) ∉ b)
    (hc : (47 : UInt8) ∉ c) : split 47 (a ++ 47 :: (b ++ 47 :: c)) = [a, b, c] := by
  rw [split_append_sep 47 a _ ha, split_append_sep 47 b _ hb, split_of_not_mem 47 c hc]

/-- A byte that is no Via delimiter and no digit occurs in the text of a Via element only if it
occurs in one of its components. -/
theorem not_mem_viaparam_encode (vp : ViaParam) (c : UInt8) (hp : 0 ≤ vp.port)
    (hdelim : c ∉ [47, 32, 58, 59, 61]) (hdig : c < 48 ∨ 57 < c)
    (hpn : c ∉ vp.protoName) (hpv : c ∉ vp.protoVersion) (htr : c ∉ vp.transport)
    (hho : c ∉ vp.host) (hps : ∀ p ∈ vp.params, c ∉ p.key ∧ c ∉ p.value) : c ∉ vp.encode := by
  simp only [List.mem_cons, List.not_mem_nil, or_false, not_or] at hdelim
  obtain ⟨h47, h32, h58, h59, h61⟩ := hdelim
  rw [viaparam_encode_eq]
  simp only [List.mem_append, List.mem_cons, List.not_mem_nil, or_false, not_or]
  exact ⟨⟨⟨⟨hpn, h47, hpv, h47, htr⟩, h32⟩, not_mem_hostPortText hp c hho h58 hdig⟩,
    not_mem_encodeSemiParams h59 h61 hps⟩

/-! ### `strings.TrimSpace` leaves a text alone that neither starts nor ends with white space -/

/-- no Go white-space rune ends with this byte: not an ASCII blank and not the final byte of
U+0085 U+00A0 U+1680 U+2000..U+200A U+2028 U+2029 U+202F U+205F U+3000 (every ASCII non-blank
byte qualifies, see `noSpaceEnd_of_ascii`) -/
def noSpaceEnd (b : UInt8) : Bool :=
  !(isAsciiSpace b || b == 0x85 || b == 0xA0 || (0x80 ≤ b && b ≤ 0x8A) || b == 0xA8 || b == 0xA9
    || b == 0xAF || b == 0x9F)

/-- the text does not end in a white-space rune (vacuous for the empty text) -/
def EndsClean (s : Bytes) : Prop := ∀ b, s.getLast? = some b → noSpaceEnd b = true

instance (s : Bytes) : Decidable (EndsClean s) := by
  unfold EndsClean
  cases h : s.getLast? with
  | none => exact isTrue (fun b hb => by cases hb)
  | some x =>
    by_cases hx : noSpaceEnd x = true
    · exact isTrue (fun b hb => by cases hb; exact hx)
    · exact isFalse (fun hf => hx (hf x rfl))

theorem noSpaceEnd_of_ascii (b : UInt8) (h1 : b < 128) (h2 : isAsciiSpace b = false) :
    noSpaceEnd b = true := by
  rw [UInt8.lt_iff_toNat_lt] at h1
  simp at h1
  have hne : ∀ c : UInt8, 128 ≤ c.toNat → (b == c) = false := by
    intro c hc
    simp only [beq_eq_false_iff_ne, ne_eq]
    intro e; subst e; omega
  have hr : (0x80 ≤ b) = False := by
    simp only [eq_iff_iff, iff_false, UInt8.le_iff_toNat_le]
    simp; omega
  simp only [noSpaceEnd, h2, hne 0x85 (by decide), hne 0xA0 (by decide), hne 0xA8 (by decide),
    hne 0xA9 (by decide), hne 0xAF (by decide), hne 0x9F (by decide), hr]
  simp

theorem spaceTokLenRev_cons (b : UInt8) (rest : Bytes) (h : noSpaceEnd b = true) :
    spaceTokLenRev (b :: rest) = 0 := by
  simp only [noSpaceEnd, Bool.not_eq_true', Bool.or_eq_false_iff] at h
  obtain ⟨⟨⟨⟨⟨⟨⟨h1, h2⟩, h3⟩, h4⟩, h5⟩, h6⟩, h7⟩, h8⟩ := h
  have h80 : (b == 0x80) = false := by
    simp only [beq_eq_false_iff_ne, ne_eq]
    intro e; subst e; revert h4; decide
  cases rest with
  | nil => simp [spaceTokLenRev, h1]
  | cons c rest2 =>
    cases rest2 with
    | nil => simp [spaceTokLenRev, h1, h2, h3]
    | cons d r => simp [spaceTokLenRev, h1, h2, h3, h4, h5, h6, h7, h8, h80]

theorem trimLeft_id (s : Bytes) (h : ∀ b rest, s = b :: rest → noSpaceStart b = true) :
    trimLeft s = s := by
  unfold trimLeft
  cases s with
  | nil => rfl
  | cons b rest =>
    simp [trimLeftAux, spaceTokLen_cons_plain b rest (h b rest rfl)]

theorem trimRight_id (s : Bytes) (h : EndsClean s) : trimRight s = s := by
  unfold trimRight
  cases hr : s.reverse with
  | nil =>
    have : s = [] := by simpa using hr
    subst this; rfl
  | cons b rest =>
    have hb : noSpaceEnd b = true := h b (by rw [List.getLast?_eq_head?_reverse, hr]; rfl)
    have hl : s.length = rest.length + 1 := by
      have := congrArg List.length hr
      simpa using this
    rw [hl]
    simp only [trimRightRevAux, spaceTokLenRev_cons b rest hb, ↓reduceIte]
    rw [← hr, List.reverse_reverse]

theorem trimSpace_id (s : Bytes) (hl : ∀ b rest, s = b :: rest → noSpaceStart b = true)
    (hr : EndsClean s) : trimSpace s = s := by
  unfold trimSpace
  rw [trimLeft_id s hl, trimRight_id s hr]

/-- the last byte of `;p1;p2;…` is ';' or the last byte of the last parameter -/
theorem getLast?_encodeSemiParams (ps : List KeyValue) (b : UInt8)
    (h : (encodeSemiParams ps).getLast? = some b) :
    b = 59 ∨ ∃ p, ps.getLast? = some p ∧ p.encode.getLast? = some b := by
  induction ps with
  | nil => simp [encodeSemiParams] at h
  | cons p qs ih =>
    rw [encodeSemiParams_cons] at h
    cases qs with
    | nil =>
      simp only [encodeSemiParams, List.append_nil, List.getLast?_cons, Option.some.injEq] at h
      cases hp : p.encode.getLast? with
      | none => left; simp [hp] at h; exact h.symm
      | some x => right; simp [hp] at h; exact ⟨p, rfl, by rw [hp, h]⟩
    | cons q rs =>
      have hne : (encodeSemiParams (q :: rs)).getLast? ≠ none := by
        rw [encodeSemiParams_cons]; simp
      rw [List.getLast?_cons, List.getLast?_append] at h
      cases hq : (encodeSemiParams (q :: rs)).getLast? with
      | none => exact absurd hq hne
      | some x =>
        simp only [hq, Option.some_or, Option.getD_some, Option.some.injEq] at h
        subst h
        rcases ih hq with h | ⟨p', hp', hb⟩
        · exact Or.inl h
        · exact Or.inr ⟨p', by rw [List.getLast?_cons_cons]; exact hp', hb⟩

theorem endsClean_encodeSemiParams (ps : List KeyValue)
    (h : ∀ p, ps.getLast? = some p → EndsClean p.encode) : EndsClean (encodeSemiParams ps) := by
  intro b hb
  rcases getLast?_encodeSemiParams ps b hb with rfl | ⟨p, hp, hpb⟩
  · decide
  · exact h p hp b hpb

theorem trimSpace_encodeSemiParams (ps : List KeyValue)
    (h : ∀ p, ps.getLast? = some p → EndsClean p.encode) :
    trimSpace (encodeSemiParams ps) = encodeSemiParams ps := by
  apply trimSpace_id _ _ (endsClean_encodeSemiParams ps h)
  intro b rest hb
  cases ps with
  | nil => simp [encodeSemiParams] at hb
  | cons p qs =>
    rw [encodeSemiParams_cons] at hb
    simp only [List.cons.injEq] at hb
    rw [← hb.1]; decide

/-! ### Route / Record-Route element, From / To, CSeq -/

/-- generic header parameters after the first ';' -/
theorem mapM?_generic_semi (p : KeyValue) (qs : List KeyValue)
    (h : ∀ x ∈ p :: qs, (61 : UInt8) ∉ x.key ∧ x.key ≠ [] ∧ (59 : UInt8) ∉ x.encode) :
    mapM? parseGenericParam (split 59 (p.encode ++ encodeSemiParams qs)) = some (p :: qs) := by
  rw [split_semi p.encode qs (h p (by simp)).2.2 (fun y hy => (h y (by simp [hy])).2.2),
    ← List.map_cons]
  exact mapM?_map _ _ _ (fun x hx => parseGenericParam_encode x (h x hx).1 (h x hx).2.1)

theorem nameaddr_encode_eq (na : NameAddr) :
    na.encode = (na.display ++ 60 :: na.addr.encode) ++ [62] := by
  simp [NameAddr.encode]

theorem cut_gt_nameaddr (na : NameAddr) (rest : Bytes) (hd : (62 : UInt8) ∉ na.display)
    (hi : (62 : UInt8) ∉ na.addr.encode) :
    cut 62 (na.encode ++ rest) = some (na.display ++ 60 :: na.addr.encode, rest) := by
  have h2 : (62 : UInt8) ∉ na.display ++ 60 :: na.addr.encode := by
    simp only [List.mem_append, List.mem_cons, not_or]
    exact ⟨hd, by decide, hi⟩
  rw [nameaddr_encode_eq, List.append_assoc, List.singleton_append]
  exact cut_append_of_not_mem 62 _ rest h2

theorem parseRouteParam_text (na : NameAddr) (ps : List KeyValue)
    (hna : parseNameAddr na.encode = some na) (hd : (62 : UInt8) ∉ na.display)
    (hi : (62 : UInt8) ∉ na.addr.encode)
    (hps : ∀ x ∈ ps, (61 : UInt8) ∉ x.key ∧ x.key ≠ [] ∧ (59 : UInt8) ∉ x.encode)
    (htail : ∀ p, ps.getLast? = some p → EndsClean p.encode) :
    parseRouteParam (na.encode ++ encodeSemiParams ps) = some { nameAddr := na, params := ps } := by
  unfold parseRouteParam
  rw [cut_gt_nameaddr na _ hd hi]
  simp only
  rw [← nameaddr_encode_eq, hna]
  simp only
  rw [trimSpace_encodeSemiParams ps htail]
  cases ps with
  | nil => simp [encodeSemiParams]
  | cons p qs =>
    rw [encodeSemiParams_cons]
    simp only [bne_self_eq_false, Bool.false_eq_true, ↓reduceIte, mapM?_generic_semi p qs hps,
      Option.map_some]

theorem parseFromToParams_semi (p : KeyValue) (qs : List KeyValue)
    (hps : ∀ x ∈ p :: qs, (61 : UInt8) ∉ x.key ∧ x.key ≠ [] ∧ (59 : UInt8) ∉ x.encode) :
    parseFromToParams (p.encode ++ encodeSemiParams qs) = some (p :: qs) := by
  have hne : p.encode ++ encodeSemiParams qs ≠ [] := by
    have := kv_encode_ne_nil (hps p (by simp)).2.1
    simp [this]
  have hl : ¬ (p.encode ++ encodeSemiParams qs).length = 0 := by
    intro h; exact hne (List.eq_nil_of_length_eq_zero h)
  simp only [parseFromToParams, hl, ↓reduceIte, mapM?_generic_semi p qs hps]

theorem parseFromTo_nameaddr_text (na : NameAddr) (ps : List KeyValue)
    (hna : parseNameAddr na.encode = some na) (hd1 : (60 : UInt8) ∉ na.display)
    (hd2 : (62 : UInt8) ∉ na.display) (hi : (62 : UInt8) ∉ na.addr.encode)
    (hps : ∀ x ∈ ps, (61 : UInt8) ∉ x.key ∧ x.key ≠ [] ∧ (59 : UInt8) ∉ x.encode) :
    parseFromToCore (na.encode ++ encodeSemiParams ps)
      = some { nameAddr := some na, addrSpec := none, params := ps } := by
  have e : na.encode ++ encodeSemiParams ps
      = na.display ++ 60 :: (na.addr.encode ++ [62] ++ encodeSemiParams ps) := by
    simp [NameAddr.encode]
  have c1 : cut 60 (na.encode ++ encodeSemiParams ps)
      = some (na.display, na.addr.encode ++ [62] ++ encodeSemiParams ps) := by
    rw [e]; exact cut_append_of_not_mem 60 _ _ hd1
  unfold parseFromToCore
  rw [c1]
  simp only
  rw [cut_gt_nameaddr na _ hd2 hi]
  have hl : ¬ (na.display ++ 60 :: na.addr.encode).length < na.display.length := by simp
  simp only [hl, ↓reduceIte]
  rw [← nameaddr_encode_eq, hna]
  simp only
  cases ps with
  | nil => simp [encodeSemiParams, cut, parseFromToParams]
  | cons p qs =>
    rw [encodeSemiParams_cons]
    simp only [cut, ↓reduceIte, parseFromToParams_semi p qs hps, Option.map_some]

theorem parseFromTo_addrspec_text (a : AddrSpec) (ps : List KeyValue)
    (ha : parseAddrSpec a.encode = some a) (h60 : (60 : UInt8) ∉ a.encode)
    (h59 : (59 : UInt8) ∉ a.encode)
    (hps : ∀ x ∈ ps, (61 : UInt8) ∉ x.key ∧ x.key ≠ [] ∧ (59 : UInt8) ∉ x.encode)
    (hlt : ∀ x ∈ ps, (60 : UInt8) ∉ x.key ∧ (60 : UInt8) ∉ x.value) :
    parseFromToCore (a.encode ++ encodeSemiParams ps)
      = some { nameAddr := none, addrSpec := some a, params := ps } := by
  have hno : (60 : UInt8) ∉ a.encode ++ encodeSemiParams ps := by
    simp only [List.mem_append, not_or]
    exact ⟨h60, not_mem_encodeSemiParams (by decide) (by decide) hlt⟩
  unfold parseFromToCore
  rw [cut_of_not_mem 60 _ hno]
  simp only
  cases ps with
  | nil =>
    simp only [encodeSemiParams, List.append_nil, cut_of_not_mem 59 _ h59, ha, Option.map_some]
  | cons p qs =>
    rw [encodeSemiParams_cons, cut_append_of_not_mem 59 _ _ h59]
    simp only [ha, parseFromToParams_semi p qs hps, Option.map_some]

/-- A byte that is no delimiter and no digit occurs in the text of a name-addr only if it occurs in
the display name or the URI text. -/
theorem not_mem_nameaddr_encode (na : NameAddr) (c : UInt8) (h60 : c ≠ 60) (h62 : c ≠ 62)
    (hd : c ∉ na.display) (ha : c ∉ na.addr.encode) : c ∉ na.encode := by
  simp only [NameAddr.encode, List.mem_append, List.mem_singleton, not_or]
  exact ⟨⟨⟨hd, h60⟩, ha⟩, h62⟩

/-! ### arbitrary input: decoding is stable under re-encoding -/

theorem not_mem_encode_parseKV (c : UInt8) (s : Bytes) (h : c ∉ s) : c ∉ (parseKV s).encode := by
  rcases encode_parseKV s with e | ⟨k, _, hs, e⟩
  · rw [e]; exact h
  · rw [e]; intro hk; exact h (by rw [hs]; simp [hk])

/-- For EVERY text `s`: re-encode the decoded URI-parameter list in the writer's `;`-joined form
and decode again — the same list comes back (forwarding twice changes nothing more than forwarding
once). -/
theorem parseUriParameters_stable (s : Bytes) :
    parseUriParameters (join [59] ((parseUriParameters s).map KeyValue.encode)) = parseUriParameters s := by
  unfold parseUriParameters
  have hne : ((split 59 s).map parseKV).map KeyValue.encode ≠ [] := by
    simpa using split_ne_nil 59 s
  rw [split_join 59 _ hne]
  · simp only [List.map_map]
    apply List.map_congr_left
    intro p _
    exact parseKV_encode_parseKV p
  · intro x hx
    simp only [List.map_map, List.mem_map, Function.comp] at hx
    obtain ⟨p, hp, rfl⟩ := hx
    exact not_mem_encode_parseKV 59 p (mem_of_mem_split 59 s p hp)

end Lemmas
