/-
Lemmas.Layout — re-layout of the multi-valued routing headers (B5): the list parsers distribute
over comma-joining, hence the routing stacks do not see whether `name: a,b` is written as one header
line or as two consecutive lines `name: a`, `name: b` — PROVIDED both parts decode. When one part does
not decode the two layouts differ (the joined header is lost as a whole, `*_join_fail`), see the
counterexamples at the end.

Also: what `getVia` / `getRoute` read is the head of the stack as soon as every header of the class
decodes (`ViaOK`, `RouteOK`) — the bridge from "same stacks" to "same decisions" used in Props/C17.
-/
import Lemmas.Abs
import Lemmas.Bytes
open GoStd Sip

namespace Lemmas

/-! ### `split` and `mapM?` over a join -/

/-- `strings.Split(a + sep + b) = strings.Split(a) ++ strings.Split(b)` (no side condition) -/
theorem split_append_sep_gen (c : UInt8) (a b : Bytes) : split c (a ++ c :: b) = split c a ++ split c b := by
  induction a with
  | nil => simp [split]
  | cons x xs ih =>
    simp only [List.cons_append, split]
    by_cases hx : x = c
    · simp [hx, ih]
    · simp only [hx, ↓reduceIte, ih]
      cases hs : split c xs with
      | nil => exact absurd hs (split_ne_nil c xs)
      | cons p ps => simp

theorem mapM?_append {α β : Type} (f : α → Option β) (l₁ l₂ : List α) :
    mapM? f (l₁ ++ l₂) = (do let x ← mapM? f l₁; let y ← mapM? f l₂; pure (x ++ y)) := by
  induction l₁ with
  | nil => cases h : mapM? f l₂ <;> simp [mapM?, h]
  | cons a as ih =>
    simp only [List.cons_append, mapM?, ih]
    cases f a with
    | none => rfl
    | some b =>
      cases mapM? f as with
      | none => rfl
      | some bs => cases mapM? f l₂ <;> rfl

/-- `ParseVia` distributes over comma-joining -/
theorem parseVia_join (a b : Bytes) :
    parseVia (a ++ [44] ++ b) = (do let x ← parseVia a; let y ← parseVia b; pure (x ++ y)) := by
  unfold parseVia
  rw [List.append_assoc, List.singleton_append, split_append_sep_gen, mapM?_append]

theorem parseRoute_join (a b : Bytes) :
    parseRoute (a ++ [44] ++ b) = (do let x ← parseRoute a; let y ← parseRoute b; pure (x ++ y)) := by
  unfold parseRoute
  rw [List.append_assoc, List.singleton_append, split_append_sep_gen, mapM?_append]

theorem parseVia_join_some {a b : Bytes} {x y : List ViaParam} (ha : parseVia a = some x) (hb : parseVia b = some y) :
    parseVia (a ++ [44] ++ b) = some (x ++ y) := by
  rw [parseVia_join, ha, hb]; rfl

theorem parseRoute_join_some {a b : Bytes} {x y : List RouteParam} (ha : parseRoute a = some x)
    (hb : parseRoute b = some y) : parseRoute (a ++ [44] ++ b) = some (x ++ y) := by
  rw [parseRoute_join, ha, hb]; rfl

/-- otherwise: the joined value does not decode at all -/
theorem parseVia_join_fail {a b : Bytes} (h : parseVia a = none ∨ parseVia b = none) :
    parseVia (a ++ [44] ++ b) = none := by
  rw [parseVia_join]
  rcases h with h | h
  · rw [h]; rfl
  · rw [h]; cases parseVia a <;> rfl

theorem parseRoute_join_fail {a b : Bytes} (h : parseRoute a = none ∨ parseRoute b = none) :
    parseRoute (a ++ [44] ++ b) = none := by
  rw [parseRoute_join]
  rcases h with h | h
  · rw [h]; rfl
  · rw [h]; cases parseRoute a <;> rfl

/-- conversely a decodable joined value has decodable parts -/
theorem parseVia_join_inv {a b : Bytes} {v : List ViaParam} (h : parseVia (a ++ [44] ++ b) = some v) :
    ∃ x y, parseVia a = some x ∧ parseVia b = some y ∧ v = x ++ y := by
  rw [parseVia_join] at h
  cases ha : parseVia a with
  | none => rw [ha] at h; cases h
  | some x =>
    cases hb : parseVia b with
    | none => rw [ha, hb] at h; cases h
    | some y =>
      rw [ha, hb] at h
      exact ⟨x, y, rfl, rfl, by simpa using h.symm⟩

theorem parseRoute_join_inv {a b : Bytes} {v : List RouteParam} (h : parseRoute (a ++ [44] ++ b) = some v) :
    ∃ x y, parseRoute a = some x ∧ parseRoute b = some y ∧ v = x ++ y := by
  rw [parseRoute_join] at h
  cases ha : parseRoute a with
  | none => rw [ha] at h; cases h
  | some x =>
    cases hb : parseRoute b with
    | none => rw [ha, hb] at h; cases h
    | some y =>
      rw [ha, hb] at h
      exact ⟨x, y, rfl, rfl, by simpa using h.symm⟩

/-! #### the usual wire form `a, b` (comma and a blank)

A Via element may be preceded by blanks (`strings.Fields` eats them), so for Via `a, b` decodes like
`a,b`. A Route element keeps everything before `<` as display name, blank included: `a, b` decodes
to the entries of `a,b` with a blank in front of the display name of `b`'s first entry
(`route_blank_display` below) — the hop is the same, the re-encoded header differs by that blank. -/

theorem fields_blank (s : Bytes) : fields (32 :: s) = fields s := rfl

theorem parseViaParam_blank (s : Bytes) : parseViaParam (32 :: s) = parseViaParam s := by
  unfold parseViaParam
  have h : split 59 (32 :: s) = match split 59 s with | [] => [[32]] | p :: ps => (32 :: p) :: ps := by
    rw [split, if_neg (by decide)]
    cases split _ s <;> rfl
  rw [h]
  cases hs : split 59 s with
  | nil => exact absurd hs (split_ne_nil 59 s)
  | cons p ps => simp only [fields_blank]

theorem parseVia_blank (s : Bytes) : parseVia (32 :: s) = parseVia s := by
  unfold parseVia
  have h : split 44 (32 :: s) = match split 44 s with | [] => [[32]] | p :: ps => (32 :: p) :: ps := by
    rw [split, if_neg (by decide)]
    cases split _ s <;> rfl
  rw [h]
  cases hs : split 44 s with
  | nil => exact absurd hs (split_ne_nil 44 s)
  | cons p ps => simp only [mapM?, parseViaParam_blank]

/-- `Via: a, b` decodes exactly like `Via: a` followed by `Via: b` -/
theorem parseVia_join_blank (a b : Bytes) :
    parseVia (a ++ [44, 32] ++ b) = (do let x ← parseVia a; let y ← parseVia b; pure (x ++ y)) := by
  have : a ++ [44, 32] ++ b = a ++ [44] ++ (32 :: b) := by simp
  rw [this, parseVia_join, parseVia_blank]

/-! ### the stacks under a split -/

section Stack
variable {α : Type} (cm : List (Bytes × Bytes)) (n : Bytes) (dec : HVal → List α)

/-- Replacing one header by two consecutive ones that are in the class `n` iff it is, and whose
decoded lists concatenate to its own, does not change the stack of `n`. -/
theorem stackOf_split (pre post : List Header) (h h₁ h₂ : Header)
    (c₁ : isSameHeader cm h₁.name n = isSameHeader cm h.name n)
    (c₂ : isSameHeader cm h₂.name n = isSameHeader cm h.name n)
    (hd : dec h.value = dec h₁.value ++ dec h₂.value) :
    stackOf cm n dec (pre ++ h :: post) = stackOf cm n dec (pre ++ h₁ :: h₂ :: post) := by
  simp only [stackOf_append, stackOf, c₁, c₂, hd]
  cases isSameHeader cm h.name n <;> simp

/-- … and a split inside a class that `n` does not overlap is invisible, whatever the values -/
theorem stackOf_split_other (pre post : List Header) (h h₁ h₂ : Header)
    (c : isSameHeader cm h.name n = false) (c₁ : isSameHeader cm h₁.name n = false)
    (c₂ : isSameHeader cm h₂.name n = false) :
    stackOf cm n dec (pre ++ h :: post) = stackOf cm n dec (pre ++ h₁ :: h₂ :: post) := by
  simp [stackOf_append, stackOf, c, c₁, c₂]

end Stack

theorem viaVals_raw_join {a b : Bytes} {x y : List ViaParam} (ha : parseVia a = some x) (hb : parseVia b = some y) :
    viaVals (.raw (a ++ [44] ++ b)) = viaVals (.raw a) ++ viaVals (.raw b) := by
  show (parseVia (a ++ [44] ++ b)).getD [] = (parseVia a).getD [] ++ (parseVia b).getD []
  rw [parseVia_join_some ha hb, ha, hb]; rfl

theorem routeVals_raw_join {a b : Bytes} {x y : List RouteParam} (ha : parseRoute a = some x)
    (hb : parseRoute b = some y) :
    routeVals (.raw (a ++ [44] ++ b)) = routeVals (.raw a) ++ routeVals (.raw b) := by
  show (parseRoute (a ++ [44] ++ b)).getD [] = (parseRoute a).getD [] ++ (parseRoute b).getD []
  rw [parseRoute_join_some ha hb, ha, hb]; rfl

theorem rrVals_raw_join {a b : Bytes} {x y : List RouteParam} (ha : parseRoute a = some x)
    (hb : parseRoute b = some y) :
    rrVals (.raw (a ++ [44] ++ b)) = rrVals (.raw a) ++ rrVals (.raw b) := by
  show (parseRoute (a ++ [44] ++ b)).getD [] = (parseRoute a).getD [] ++ (parseRoute b).getD []
  rw [parseRoute_join_some ha hb, ha, hb]; rfl

section Stacks
variable (cm : List (Bytes × Bytes)) (pre post : List Header) (nm nm₁ nm₂ a b : Bytes)

/-- `Via: a,b` ↔ `Via: a` / `Via: b` (three names of the Via class or, pointlessly, three outside it) -/
theorem viaStack_split {x y : List ViaParam} (ha : parseVia a = some x) (hb : parseVia b = some y)
    (c₁ : isSameHeader cm nm₁ viaName = isSameHeader cm nm viaName)
    (c₂ : isSameHeader cm nm₂ viaName = isSameHeader cm nm viaName) :
    viaStack cm (pre ++ { name := nm, value := .raw (a ++ [44] ++ b) } :: post) =
      viaStack cm (pre ++ { name := nm₁, value := .raw a } :: { name := nm₂, value := .raw b } :: post) :=
  stackOf_split cm viaName viaVals pre post _ _ _ c₁ c₂ (viaVals_raw_join ha hb)

theorem routeStack_split {x y : List RouteParam} (ha : parseRoute a = some x) (hb : parseRoute b = some y)
    (c₁ : isSameHeader cm nm₁ routeName = isSameHeader cm nm routeName)
    (c₂ : isSameHeader cm nm₂ routeName = isSameHeader cm nm routeName) :
    routeStack cm (pre ++ { name := nm, value := .raw (a ++ [44] ++ b) } :: post) =
      routeStack cm (pre ++ { name := nm₁, value := .raw a } :: { name := nm₂, value := .raw b } :: post) :=
  stackOf_split cm routeName routeVals pre post _ _ _ c₁ c₂ (routeVals_raw_join ha hb)

theorem rrStack_split {x y : List RouteParam} (ha : parseRoute a = some x) (hb : parseRoute b = some y)
    (c₁ : isSameHeader cm nm₁ recordRouteName = isSameHeader cm nm recordRouteName)
    (c₂ : isSameHeader cm nm₂ recordRouteName = isSameHeader cm nm recordRouteName) :
    rrStack cm (pre ++ { name := nm, value := .raw (a ++ [44] ++ b) } :: post) =
      rrStack cm (pre ++ { name := nm₁, value := .raw a } :: { name := nm₂, value := .raw b } :: post) :=
  stackOf_split cm recordRouteName rrVals pre post _ _ _ c₁ c₂ (rrVals_raw_join ha hb)

/-- the same for already decoded values -/
theorem viaStack_split_decoded (x y : List ViaParam)
    (c₁ : isSameHeader cm nm₁ viaName = isSameHeader cm nm viaName)
    (c₂ : isSameHeader cm nm₂ viaName = isSameHeader cm nm viaName) :
    viaStack cm (pre ++ { name := nm, value := .via (x ++ y) } :: post) =
      viaStack cm (pre ++ { name := nm₁, value := .via x } :: { name := nm₂, value := .via y } :: post) :=
  stackOf_split cm viaName viaVals pre post _ _ _ c₁ c₂ rfl

theorem routeStack_split_decoded (x y : List RouteParam)
    (c₁ : isSameHeader cm nm₁ routeName = isSameHeader cm nm routeName)
    (c₂ : isSameHeader cm nm₂ routeName = isSameHeader cm nm routeName) :
    routeStack cm (pre ++ { name := nm, value := .route (x ++ y) } :: post) =
      routeStack cm (pre ++ { name := nm₁, value := .route x } :: { name := nm₂, value := .route y } :: post) :=
  stackOf_split cm routeName routeVals pre post _ _ _ c₁ c₂ rfl

/-- otherwise (a part does not decode): the joined header contributes NOTHING, the two separate
headers contribute whatever decodes -/
theorem viaStack_split_fail (h : parseVia a = none ∨ parseVia b = none)
    (c : isSameHeader cm nm viaName = true) (c₁ : isSameHeader cm nm₁ viaName = true)
    (c₂ : isSameHeader cm nm₂ viaName = true) :
    viaStack cm (pre ++ { name := nm, value := .raw (a ++ [44] ++ b) } :: post) =
      viaStack cm pre ++ viaStack cm post ∧
    viaStack cm (pre ++ { name := nm₁, value := .raw a } :: { name := nm₂, value := .raw b } :: post) =
      viaStack cm pre ++ ((parseVia a).getD [] ++ ((parseVia b).getD [] ++ viaStack cm post)) := by
  have hj : parseVia (a ++ 44 :: b) = none := by simpa using parseVia_join_fail h
  simp [viaStack, stackOf_append, stackOf, c, c₁, c₂, viaVals, hj]

theorem routeStack_split_fail (h : parseRoute a = none ∨ parseRoute b = none)
    (c : isSameHeader cm nm routeName = true) (c₁ : isSameHeader cm nm₁ routeName = true)
    (c₂ : isSameHeader cm nm₂ routeName = true) :
    routeStack cm (pre ++ { name := nm, value := .raw (a ++ [44] ++ b) } :: post) =
      routeStack cm pre ++ routeStack cm post ∧
    routeStack cm (pre ++ { name := nm₁, value := .raw a } :: { name := nm₂, value := .raw b } :: post) =
      routeStack cm pre ++ ((parseRoute a).getD [] ++ ((parseRoute b).getD [] ++ routeStack cm post)) := by
  have hj : parseRoute (a ++ 44 :: b) = none := by simpa using parseRoute_join_fail h
  simp [routeStack, stackOf_append, stackOf, c, c₁, c₂, routeVals, hj]

end Stacks

/-! ### what the getters read is the head of the stack

`ViaOK hs`: every Via-class header holds a non-empty decoded list or a string that decodes. True of
every received message whose Via headers are well formed; preserved by `popVia`. Under it the first
element `getVia` returns is the head of the Via stack (without it the first Via header may fail to
decode while the stack, which skips undecodable headers, is not empty). -/

section Heads
variable (cm : List (Bytes × Bytes))

def ViaOK (hs : List Header) : Prop :=
  ∀ h ∈ hs, isSameHeader cm h.name viaName = true →
    (∃ v, h.value = .via v ∧ v ≠ []) ∨ ∃ s v, h.value = .raw s ∧ parseVia s = some v

def RouteOK (hs : List Header) : Prop :=
  ∀ h ∈ hs, isSameHeader cm h.name routeName = true →
    (∃ r, h.value = .route r ∧ r ≠ []) ∨ ∃ s r, h.value = .raw s ∧ parseRoute s = some r

theorem isSameHeader_of_findHeader {hs : List Header} {n : Bytes} {hd : Header}
    (h : findHeader cm hs n = some hd) : isSameHeader cm hd.name n = true := by
  have := List.find?_some h
  simpa using this

/-- under `ViaOK`: `getVia` fails iff the stack is empty, and otherwise returns a non-empty list that
is a prefix of the stack -/
theorem getVia_of_viaOK {m : Message} (hok : ViaOK cm m.headers) :
    (getVia cm m = none ∧ viaStack cm m.headers = []) ∨
    ∃ vp v m1 rest, getVia cm m = some (vp :: v, m1) ∧ viaStack cm m.headers = vp :: v ++ rest := by
  cases hf : findHeader cm m.headers viaName with
  | none => exact Or.inl ⟨getVia_none_of_find_none cm hf, stackOf_of_find_none cm viaName viaVals _ hf⟩
  | some hd =>
    right
    have hmem := mem_of_findHeader cm hf
    have hcls := isSameHeader_of_findHeader cm hf
    have hg : ∃ v m1, getVia cm m = some (v, m1) ∧ v ≠ [] := by
      rcases hok hd hmem hcls with ⟨v, hv, hne⟩ | ⟨s, v, hv, hp⟩
      · exact ⟨v, m, by simp [getVia, hf, hv], hne⟩
      · exact ⟨v, { m with headers := setFirst cm m.headers viaName (.via v) }, by simp [getVia, hf, hv, hp],
          parseVia_ne_nil s v hp⟩
    obtain ⟨v, m1, hg, hne⟩ := hg
    obtain ⟨rest, hr⟩ := (viaStack_getVia cm hg).2
    cases v with
    | nil => exact absurd rfl hne
    | cons vp v => exact ⟨vp, v, m1, rest, hg, hr⟩

theorem getRoute_of_routeOK {m : Message} (hok : RouteOK cm m.headers) :
    (getRoute cm m = none ∧ routeStack cm m.headers = []) ∨
    ∃ rp r m1 rest, getRoute cm m = some (rp :: r, m1) ∧ routeStack cm m.headers = rp :: r ++ rest := by
  cases hf : findHeader cm m.headers routeName with
  | none =>
    exact Or.inl ⟨by simp [getRoute, hf], stackOf_of_find_none cm routeName routeVals _ hf⟩
  | some hd =>
    right
    have hmem := mem_of_findHeader cm hf
    have hcls := isSameHeader_of_findHeader cm hf
    have hg : ∃ v m1, getRoute cm m = some (v, m1) ∧ v ≠ [] := by
      rcases hok hd hmem hcls with ⟨v, hv, hne⟩ | ⟨s, v, hv, hp⟩
      · exact ⟨v, m, by simp [getRoute, hf, hv], hne⟩
      · exact ⟨v, { m with headers := setFirst cm m.headers routeName (.route v) }, by simp [getRoute, hf, hv, hp],
          parseRoute_ne_nil s v hp⟩
    obtain ⟨v, m1, hg, hne⟩ := hg
    obtain ⟨rest, hr⟩ := (routeStack_getRoute cm hg).2
    cases v with
    | nil => exact absurd rfl hne
    | cons vp v => exact ⟨vp, v, m1, rest, hg, hr⟩

/-- the first via-param `getVia` returns is the head of the stack -/
theorem getVia_head_of_viaOK {m : Message} (hok : ViaOK cm m.headers) :
    (getVia cm m).bind (fun p => p.1.head?) = (viaStack cm m.headers).head? := by
  rcases getVia_of_viaOK cm hok with ⟨h1, h2⟩ | ⟨vp, v, m1, rest, h1, h2⟩
  · rw [h1, h2]; rfl
  · rw [h1, h2]; rfl

theorem getRoute_head_of_routeOK {m : Message} (hok : RouteOK cm m.headers) :
    (getRoute cm m).bind (fun p => p.1.head?) = (routeStack cm m.headers).head? := by
  rcases getRoute_of_routeOK cm hok with ⟨h1, h2⟩ | ⟨vp, v, m1, rest, h1, h2⟩
  · rw [h1, h2]; rfl
  · rw [h1, h2]; rfl

theorem viaOK_setFirst {hs : List Header} (hok : ViaOK cm hs) (n : Bytes) {v : List ViaParam} (hv : v ≠ []) :
    ViaOK cm (setFirst cm hs n (.via v)) := by
  intro h hm hc
  rcases mem_setFirst cm hs n _ h hm with hm | hm
  · exact hok h hm hc
  · exact Or.inl ⟨v, hm, hv⟩

theorem viaOK_removeHeader {hs : List Header} (hok : ViaOK cm hs) (n : Bytes) : ViaOK cm (removeHeader cm hs n) :=
  fun h hm hc => hok h (mem_removeHeader cm hs n h hm) hc

theorem routeOK_setFirst {hs : List Header} (hok : RouteOK cm hs) (n : Bytes) {v : List RouteParam} (hv : v ≠ []) :
    RouteOK cm (setFirst cm hs n (.route v)) := by
  intro h hm hc
  rcases mem_setFirst cm hs n _ h hm with hm | hm
  · exact hok h hm hc
  · exact Or.inl ⟨v, hm, hv⟩

theorem routeOK_removeHeader {hs : List Header} (hok : RouteOK cm hs) (n : Bytes) : RouteOK cm (removeHeader cm hs n) :=
  fun h hm hc => hok h (mem_removeHeader cm hs n h hm) hc

/-- `popVia` keeps `ViaOK` and removes exactly the head of the stack -/
theorem popVia_of_viaOK {m m1 : Message} (hok : ViaOK cm m.headers) (hp : popVia cm m = some m1) :
    ViaOK cm m1.headers ∧ viaStack cm m1.headers = (viaStack cm m.headers).tail := by
  constructor
  · unfold popVia at hp
    split at hp
    · cases hp
    · rename_i v m' hg
      obtain ⟨hd, hf, hv, rfl⟩ := getVia_some cm hg
      have hne : v ≠ [] := by
        rcases getVia_of_viaOK cm hok with ⟨h1, _⟩ | ⟨vp, v', m1', rest, h1, _⟩
        · rw [h1] at hg; cases hg
        · rw [h1] at hg; cases hg; simp
      split at hp
      · rename_i hl
        cases hp
        refine viaOK_setFirst cm (viaOK_setFirst cm hok _ hne) _ ?_
        cases v with
        | nil => simp at hl
        | cons a as => cases as with
          | nil => simp at hl
          | cons b bs => simp
      · cases hp
        exact viaOK_removeHeader cm (viaOK_setFirst cm hok _ hne) _
  · apply viaStack_popVia cm hp
    intro hd hf hv
    rcases hok hd (mem_of_findHeader cm hf) (isSameHeader_of_findHeader cm hf) with ⟨v, hv', hne⟩ | ⟨s, v, hv', _⟩
    · rw [hv] at hv'; cases hv'; exact hne rfl
    · rw [hv] at hv'; cases hv'

/-- under `ViaOK` `popVia` fails exactly on an empty stack -/
theorem popVia_none_of_viaOK {m : Message} (hok : ViaOK cm m.headers) (hp : popVia cm m = none) :
    viaStack cm m.headers = [] := by
  have h1 : (getVia cm m).isSome = false := by rw [← popVia_isSome, hp]; rfl
  rcases getVia_of_viaOK cm hok with ⟨_, h2⟩ | ⟨vp, v, m1, rest, h2, _⟩
  · exact h2
  · rw [h2] at h1; cases h1

theorem popRoute_of_routeOK {m m1 : Message} (hok : RouteOK cm m.headers) (hp : popRoute cm m = some m1) :
    RouteOK cm m1.headers ∧ routeStack cm m1.headers = (routeStack cm m.headers).tail := by
  constructor
  · unfold popRoute at hp
    split at hp
    · cases hp
    · rename_i v m' hg
      obtain ⟨hd, hf, hv, rfl⟩ := getRoute_some cm hg
      have hne : v ≠ [] := by
        rcases getRoute_of_routeOK cm hok with ⟨h1, _⟩ | ⟨vp, v', m1', rest, h1, _⟩
        · rw [h1] at hg; cases hg
        · rw [h1] at hg; cases hg; simp
      split at hp
      · rename_i hl
        cases hp
        refine routeOK_setFirst cm (routeOK_setFirst cm hok _ hne) _ ?_
        cases v with
        | nil => simp at hl
        | cons a as => cases as with
          | nil => simp at hl
          | cons b bs => simp
      · cases hp
        exact routeOK_removeHeader cm (routeOK_setFirst cm hok _ hne) _
  · apply routeStack_popRoute cm hp
    intro hd hf hv
    rcases hok hd (mem_of_findHeader cm hf) (isSameHeader_of_findHeader cm hf) with ⟨v, hv', hne⟩ | ⟨s, v, hv', _⟩
    · rw [hv] at hv'; cases hv'; exact hne rfl
    · rw [hv] at hv'; cases hv'

/-- decision procedures for concrete header lists -/
def checkViaOK (hs : List Header) : Bool :=
  hs.all fun h => !isSameHeader cm h.name viaName ||
    (match h.value with
     | .via v => !v.isEmpty
     | .raw s => (parseVia s).isSome
     | _ => false)

def checkRouteOK (hs : List Header) : Bool :=
  hs.all fun h => !isSameHeader cm h.name routeName ||
    (match h.value with
     | .route v => !v.isEmpty
     | .raw s => (parseRoute s).isSome
     | _ => false)

theorem viaOK_of_check {hs : List Header} (h : checkViaOK cm hs = true) : ViaOK cm hs := by
  intro x hx hc
  have := List.all_eq_true.mp h x hx
  simp only [hc, Bool.not_true, Bool.false_or] at this
  cases hv : x.value with
  | via v =>
    rw [hv] at this
    exact Or.inl ⟨v, rfl, by intro e; subst e; simp at this⟩
  | raw s =>
    rw [hv] at this
    obtain ⟨v, hp⟩ := Option.isSome_iff_exists.mp this
    exact Or.inr ⟨s, v, rfl, hp⟩
  | route _ => rw [hv] at this; cases this
  | recordRoute _ => rw [hv] at this; cases this
  | fromSpec _ => rw [hv] at this; cases this
  | to _ => rw [hv] at this; cases this
  | cseq _ => rw [hv] at this; cases this

theorem routeOK_of_check {hs : List Header} (h : checkRouteOK cm hs = true) : RouteOK cm hs := by
  intro x hx hc
  have := List.all_eq_true.mp h x hx
  simp only [hc, Bool.not_true, Bool.false_or] at this
  cases hv : x.value with
  | route v =>
    rw [hv] at this
    exact Or.inl ⟨v, rfl, by intro e; subst e; simp at this⟩
  | raw s =>
    rw [hv] at this
    obtain ⟨v, hp⟩ := Option.isSome_iff_exists.mp this
    exact Or.inr ⟨s, v, rfl, hp⟩
  | via _ => rw [hv] at this; cases this
  | recordRoute _ => rw [hv] at this; cases this
  | fromSpec _ => rw [hv] at this; cases this
  | to _ => rw [hv] at this; cases this
  | cseq _ => rw [hv] at this; cases this

/-! #### `ViaOK` / `RouteOK` across a split -/

theorem viaOK_split (pre post : List Header) (nm nm₁ nm₂ a b : Bytes) {x y : List ViaParam}
    (ha : parseVia a = some x) (hb : parseVia b = some y)
    (hok : ViaOK cm (pre ++ { name := nm, value := .raw (a ++ [44] ++ b) } :: post)) :
    ViaOK cm (pre ++ { name := nm₁, value := .raw a } :: { name := nm₂, value := .raw b } :: post) := by
  intro h hm hc
  simp only [List.mem_append, List.mem_cons] at hm
  rcases hm with hm | rfl | rfl | hm
  · exact hok h (by simp [hm]) hc
  · exact Or.inr ⟨a, x, rfl, ha⟩
  · exact Or.inr ⟨b, y, rfl, hb⟩
  · exact hok h (by simp [hm]) hc

theorem viaOK_join (pre post : List Header) (nm nm₁ nm₂ a b : Bytes) {x y : List ViaParam}
    (ha : parseVia a = some x) (hb : parseVia b = some y)
    (hok : ViaOK cm (pre ++ { name := nm₁, value := .raw a } :: { name := nm₂, value := .raw b } :: post)) :
    ViaOK cm (pre ++ { name := nm, value := .raw (a ++ [44] ++ b) } :: post) := by
  intro h hm hc
  simp only [List.mem_append, List.mem_cons] at hm
  rcases hm with hm | rfl | hm
  · exact hok h (by simp [hm]) hc
  · exact Or.inr ⟨_, _, rfl, parseVia_join_some ha hb⟩
  · exact hok h (by simp [hm]) hc

theorem routeOK_split (pre post : List Header) (nm nm₁ nm₂ a b : Bytes) {x y : List RouteParam}
    (ha : parseRoute a = some x) (hb : parseRoute b = some y)
    (hok : RouteOK cm (pre ++ { name := nm, value := .raw (a ++ [44] ++ b) } :: post)) :
    RouteOK cm (pre ++ { name := nm₁, value := .raw a } :: { name := nm₂, value := .raw b } :: post) := by
  intro h hm hc
  simp only [List.mem_append, List.mem_cons] at hm
  rcases hm with hm | rfl | rfl | hm
  · exact hok h (by simp [hm]) hc
  · exact Or.inr ⟨a, x, rfl, ha⟩
  · exact Or.inr ⟨b, y, rfl, hb⟩
  · exact hok h (by simp [hm]) hc

theorem routeOK_join (pre post : List Header) (nm nm₁ nm₂ a b : Bytes) {x y : List RouteParam}
    (ha : parseRoute a = some x) (hb : parseRoute b = some y)
    (hok : RouteOK cm (pre ++ { name := nm₁, value := .raw a } :: { name := nm₂, value := .raw b } :: post)) :
    RouteOK cm (pre ++ { name := nm, value := .raw (a ++ [44] ++ b) } :: post) := by
  intro h hm hc
  simp only [List.mem_append, List.mem_cons] at hm
  rcases hm with hm | rfl | hm
  · exact hok h (by simp [hm]) hc
  · exact Or.inr ⟨_, _, rfl, parseRoute_join_some ha hb⟩
  · exact hok h (by simp [hm]) hc

end Heads

/-! ### non-vacuity and corners -/

section Examples

def exViaA : Bytes := str "SIP/2.0/UDP a:5070;branch=z1"
def exViaB : Bytes := str "SIP/2.0/TCP b"
def exRouteA : Bytes := str "<sip:p1;lr>"
def exRouteB : Bytes := str "<sip:p2:5080;transport=tcp>"

/-- both parts decode: hypotheses of `parseVia_join_some`, `viaStack_split`, `viaOK_split` -/
example : (parseVia exViaA).isSome = true ∧ (parseVia exViaB).isSome = true ∧
    (parseRoute exRouteA).isSome = true ∧ (parseRoute exRouteB).isSome = true := by decide +kernel

example : (parseVia (exViaA ++ [44] ++ exViaB)).map (·.map (·.host)) = some [str "a", str "b"] := by decide +kernel

/-- `ViaOK` / `RouteOK` hold for the example message of `Lemmas.Abs` -/
example : ViaOK realCm exMsg.headers := by
  intro h hm hc
  simp only [exMsg, List.mem_cons, List.not_mem_nil, or_false] at hm
  rcases hm with rfl | rfl | rfl | rfl | rfl | rfl | rfl | rfl
  · exfalso; revert hc; decide +kernel
  · obtain ⟨v, hv⟩ := Option.isSome_iff_exists.mp (show (parseVia exTopVia).isSome = true by decide +kernel)
    exact Or.inr ⟨_, v, rfl, hv⟩
  · exfalso; revert hc; decide +kernel
  · exfalso; revert hc; decide +kernel
  · obtain ⟨v, hv⟩ := Option.isSome_iff_exists.mp (show (parseVia (str "SIP/2.0/UDP c")).isSome = true by decide +kernel)
    exact Or.inr ⟨_, v, rfl, hv⟩
  · exfalso; revert hc; decide +kernel
  · exfalso; revert hc; decide +kernel
  · exfalso; revert hc; decide +kernel

/-- `viaStack_split` / `routeStack_split` / `viaOK_split` on concrete lists: `Via: a,b` against `v: a`, `VIA: b` -/
theorem exVia_parts : ∃ x y, parseVia exViaA = some x ∧ parseVia exViaB = some y := by
  obtain ⟨x, hx⟩ := Option.isSome_iff_exists.mp (show (parseVia exViaA).isSome = true by decide +kernel)
  obtain ⟨y, hy⟩ := Option.isSome_iff_exists.mp (show (parseVia exViaB).isSome = true by decide +kernel)
  exact ⟨x, y, hx, hy⟩

theorem exRoute_parts : ∃ x y, parseRoute exRouteA = some x ∧ parseRoute exRouteB = some y := by
  obtain ⟨x, hx⟩ := Option.isSome_iff_exists.mp (show (parseRoute exRouteA).isSome = true by decide +kernel)
  obtain ⟨y, hy⟩ := Option.isSome_iff_exists.mp (show (parseRoute exRouteB).isSome = true by decide +kernel)
  exact ⟨x, y, hx, hy⟩

example : viaStack realCm ([] ++ { name := str "Via", value := .raw (exViaA ++ [44] ++ exViaB) } :: []) =
    viaStack realCm ([] ++ { name := str "v", value := .raw exViaA } :: { name := str "VIA", value := .raw exViaB } :: []) := by
  obtain ⟨x, y, hx, hy⟩ := exVia_parts
  exact viaStack_split realCm [] [] _ _ _ _ _ hx hy (by decide +kernel) (by decide +kernel)

/-- … and the stack in question has two entries -/
example : (viaStack realCm [{ name := str "v", value := .raw exViaA }, { name := str "VIA", value := .raw exViaB }]).length = 2 := by
  decide +kernel

example : RouteOK realCm exMsg.headers := by
  intro h hm hc
  simp only [exMsg, List.mem_cons, List.not_mem_nil, or_false] at hm
  rcases hm with rfl | rfl | rfl | rfl | rfl | rfl | rfl | rfl
  · exfalso; revert hc; decide +kernel
  · exfalso; revert hc; decide +kernel
  · obtain ⟨v, hv⟩ := Option.isSome_iff_exists.mp
      (show (parseRoute (str "<sip:p1;lr>, <sip:p2:5080;transport=tcp>")).isSome = true by decide +kernel)
    exact Or.inr ⟨_, v, rfl, hv⟩
  · exfalso; revert hc; decide +kernel
  · exfalso; revert hc; decide +kernel
  · exfalso; revert hc; decide +kernel
  · exfalso; revert hc; decide +kernel
  · exfalso; revert hc; decide +kernel

/-- `popVia_none_of_viaOK`: a message without Via headers -/
example : ViaOK realCm [({ name := str "To", value := .raw [] } : Header)] ∧
    popVia realCm { start := .status [] 200 [], body := [], headers := [{ name := str "To", value := .raw [] }] } = none := by
  refine ⟨?_, by decide +kernel⟩
  intro h hm hc
  simp only [List.mem_singleton] at hm
  subst hm
  exfalso; revert hc; decide +kernel

/-- hypotheses of `parseVia_join_inv` / `parseVia_join_fail` -/
example : (parseVia (exViaA ++ [44] ++ exViaB)).isSome = true ∧ parseVia (str "junk") = none := by decide +kernel

/-- the blank after the comma: for Via it is eaten … -/
example : parseVia (exViaA ++ [44, 32] ++ exViaB) = parseVia (exViaA ++ [44] ++ exViaB) := by
  rw [parseVia_join_blank, parseVia_join]

/-- … for Route it ends up in the display name of the entry behind it -/
theorem route_blank_display :
    (parseRoute (exRouteA ++ [44, 32] ++ exRouteB)).map (·.map (·.nameAddr.display)) = some [[], [32]] ∧
    (parseRoute (exRouteA ++ [44] ++ exRouteB)).map (·.map (·.nameAddr.display)) = some [[], []] := by
  decide +kernel

/-- a part that does not decode: the joined header yields nothing, the split one yields the good part -/
theorem split_fail_differs :
    viaStack realCm [{ name := str "Via", value := .raw (exViaB ++ [44] ++ str "junk") }] = [] ∧
    (viaStack realCm [{ name := str "Via", value := .raw exViaB }, { name := str "Via", value := .raw (str "junk") }]).map
      (·.host) = [str "b"] := by decide +kernel

/-- … and the typed getter sees the difference: none against the entry `b` -/
theorem split_fail_getVia :
    (getVia realCm { start := .status [] 200 [], body := [],
                     headers := [{ name := str "Via", value := .raw (exViaB ++ [44] ++ str "junk") }] }).isSome = false ∧
    ((getVia realCm { start := .status [] 200 [], body := [],
                      headers := [{ name := str "Via", value := .raw exViaB },
                                  { name := str "Via", value := .raw (str "junk") }] }).map
        (fun p => p.1.map (·.host))) = some [str "b"] := by decide +kernel

/-- without `ViaOK` the head of the stack is not what `getVia` reads: an undecodable first Via header
hides the decodable one behind it from the getter, but not from the stack -/
theorem head_needs_viaOK :
    let m : Message := { start := .status [] 200 [], body := [],
                         headers := [{ name := str "Via", value := .raw (str "junk") },
                                     { name := str "Via", value := .raw exViaB }] }
    (getVia realCm m).isSome = false ∧ (viaStack realCm m.headers).map (·.host) = [str "b"] := by decide +kernel

end Examples

end Lemmas
