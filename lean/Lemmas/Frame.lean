/-
Lemmas.Frame — the TCP connection loop without its fuel: `connLoop` is "parse until error"
(`connLoop_ok` / `connLoop_error`), because every successful parse consumes input; and the loop's
output is bounded by its input. Core Lean only.
-/
import Reader.Frame
import Lemmas.Message
open GoStd Sip Reader

namespace Lemmas

/-- a successful parse always consumes input -/
theorem parseMessage_progress (cm : List (Bytes × Bytes)) (input : Bytes) (m : Message) (rest : Bytes)
    (h : parseMessage cm input = .ok m rest) : rest.length < input.length := by
  have := parseMessage_size cm input m rest h
  omega

/-- input that is white space only (keep-alives and nothing else) is not a message -/
theorem parseMessage_white (cm : List (Bytes × Bytes)) (s : Bytes)
    (h : ∀ b ∈ s, isWhiteSpace b = true) : parseMessage cm s = .error := by
  have : skipWhiteSpace s = [] := by
    have := skipWhiteSpace_append s [] h
    simpa [skipWhiteSpace] using this
  simp [parseMessage, this, readLine]

/-- the `else [m]` branch of `connLoopAux` (no progress) is dead code -/
theorem connLoopAux_succ (cm : List (Bytes × Bytes)) (fuel : Nat) (s : Bytes) :
    connLoopAux cm (fuel + 1) s =
      match parseMessage cm s with
      | .error => []
      | .ok m rest => m :: connLoopAux cm fuel rest := by
  simp only [connLoopAux]
  cases hp : parseMessage cm s with
  | error => rfl
  | ok m rest => simp [parseMessage_progress cm s m rest hp]

/-- fuel adequacy: any fuel above the stream length gives the same result -/
theorem connLoopAux_fuel (cm : List (Bytes × Bytes)) (f1 f2 : Nat) (s : Bytes)
    (h1 : s.length < f1) (h2 : s.length < f2) : connLoopAux cm f1 s = connLoopAux cm f2 s := by
  induction f1 generalizing f2 s with
  | zero => omega
  | succ f1 ih =>
    obtain ⟨f2, rfl⟩ : ∃ f, f2 = f + 1 := ⟨f2 - 1, by omega⟩
    rw [connLoopAux_succ, connLoopAux_succ]
    cases hp : parseMessage cm s with
    | error => rfl
    | ok m rest =>
      have := parseMessage_progress cm s m rest hp
      simp only
      rw [ih f2 rest (by omega) (by omega)]

/-- the loop, fuel-free: a parsed message is emitted and the loop continues on the rest -/
theorem connLoop_ok (cm : List (Bytes × Bytes)) (s : Bytes) (m : Message) (rest : Bytes)
    (h : parseMessage cm s = .ok m rest) : connLoop cm s = m :: connLoop cm rest := by
  have hlt := parseMessage_progress cm s m rest h
  show connLoopAux cm (s.length + 1) s = m :: connLoopAux cm (rest.length + 1) rest
  rw [connLoopAux_succ, h]
  simp only
  rw [connLoopAux_fuel cm s.length (rest.length + 1) rest hlt (by omega)]

/-- … and it ends (the connection is closed) at the first input that does not parse -/
theorem connLoop_error (cm : List (Bytes × Bytes)) (s : Bytes)
    (h : parseMessage cm s = .error) : connLoop cm s = [] := by
  simp only [connLoop, connLoopAux_succ, h]

/-- at most one message per two bytes of stream; headers and bodies held together never exceed the
stream -/
theorem connLoopAux_bounded (cm : List (Bytes × Bytes)) (fuel : Nat) (s : Bytes) :
    2 * (connLoopAux cm fuel s).length
      + ((connLoopAux cm fuel s).map (fun m => m.headers.length + m.body.length)).sum ≤ s.length := by
  induction fuel generalizing s with
  | zero => simp [connLoopAux]
  | succ f ih =>
    rw [connLoopAux_succ]
    cases hp : parseMessage cm s with
    | error => simp
    | ok m rest =>
      have h1 := parseMessage_size cm s m rest hp
      have h2 := ih rest
      simp only [List.length_cons, List.map_cons, List.sum_cons]
      omega

/-! ### non-vacuity -/

example (cm : List (Bytes × Bytes)) : connLoop cm (keepAlives 2) = [] :=
  connLoop_error cm _ (parseMessage_white cm _ (keepAlives_white 2))

/-- one message, then a keep-alive: the loop emits it and stops at the end of the stream -/
example (cm : List (Bytes × Bytes)) :
    connLoop cm (render [13, 10] [83, 73, 80, 47, 50, 46, 48, 32, 50, 48, 48, 32, 79, 75]
        [(contentLengthName, [50])] [104, 105] ++ keepAlives 1)
      = [⟨.status [83, 73, 80, 47, 50, 46, 48] 200 [79, 75],
          [⟨contentLengthName, .raw [50]⟩], [104, 105]⟩] := by
  rw [connLoop_ok cm _ _ _ (parse_render cm _ _ _ _ _ (Or.inl rfl) (wf_example_status cm) _),
    connLoop_error cm _ (parseMessage_white cm _ (keepAlives_white 1))]
  rfl

end Lemmas
