/-
Lemmas.Dialog — shape of the dialog identifier and of the URI core it is built from.
-/
import Sip.Message
import Lemmas.Join
import Lemmas.Itoa
open GoStd Sip

namespace Lemmas

/-- `dialogId` is `strings.Join` of Call-ID and the two (tag, address) halves in one of two orders. -/
theorem dialogId_eq_join (c t₁ a₁ t₂ a₂ : Bytes) :
    dialogId c t₁ a₁ t₂ a₂ = join [32] [c, t₁, a₁, t₂, a₂] ∨
    dialogId c t₁ a₁ t₂ a₂ = join [32] [c, t₂, a₂, t₁, a₁] := by
  unfold dialogId dialogSep
  split
  · left; simp [join]
  · right; simp [join]

/-- five blank-free parts can be read back from their blank-separated concatenation -/
theorem join5_injective (c x y z w c' x' y' z' w' : Bytes)
    (hc : (32 : UInt8) ∉ c) (hx : (32 : UInt8) ∉ x) (hy : (32 : UInt8) ∉ y) (hz : (32 : UInt8) ∉ z) (hw : (32 : UInt8) ∉ w)
    (hc' : (32 : UInt8) ∉ c') (hx' : (32 : UInt8) ∉ x') (hy' : (32 : UInt8) ∉ y') (hz' : (32 : UInt8) ∉ z')
    (hw' : (32 : UInt8) ∉ w')
    (hj : join [32] [c, x, y, z, w] = join [32] [c', x', y', z', w']) :
    c = c' ∧ x = x' ∧ y = y' ∧ z = z' ∧ w = w' := by
  have := join_injective 32 _ _ (by simp) (by simp)
    (by simp only [List.mem_cons, List.not_mem_nil, or_false]; rintro p (rfl | rfl | rfl | rfl | rfl) <;> assumption)
    (by simp only [List.mem_cons, List.not_mem_nil, or_false]; rintro p (rfl | rfl | rfl | rfl | rfl) <;> assumption) hj
  simpa using this

/-- the bytes `SIPURI._Write(false, false)` produces, in a shape that can be read back -/
theorem write_core (u : SIPURI) :
    u.write false false =
      u.scheme ++ 58 ::
        (if u.user.length > 0 then
           (if u.password.length > 0 then u.user ++ 58 :: u.password else u.user) ++ 64 ::
             (if u.port ≠ 0 then u.host ++ 58 :: itoa u.port else u.host)
         else (if u.port ≠ 0 then u.host ++ 58 :: itoa u.port else u.host)) := by
  unfold SIPURI.write
  by_cases h1 : u.user.length > 0 <;> by_cases h2 : u.password.length > 0 <;> by_cases h3 : u.port = 0 <;>
    simp [h1, h2, h3]

theorem itoa_no_blank (i : Int) : (32 : UInt8) ∉ itoa i := by
  intro h
  rcases itoa_bytes i 32 h with h | h
  · exact absurd h (by decide)
  · exact absurd h.1 (by decide)

/-- the URI core contains a blank only if one of its fields does -/
theorem write_core_no_blank (u : SIPURI) (hs : (32 : UInt8) ∉ u.scheme) (hu : (32 : UInt8) ∉ u.user)
    (hp : (32 : UInt8) ∉ u.password) (hh : (32 : UInt8) ∉ u.host) : (32 : UInt8) ∉ u.write false false := by
  have hi := itoa_no_blank u.port
  rw [write_core]
  split <;> split <;> (try split) <;>
    simp only [List.mem_append, List.mem_cons, not_or] <;>
    simp [hs, hu, hp, hh, hi]

end Lemmas
