/-
Lemmas.Relay — closed forms of the sending functions of `Proxy/Model.lean`
(`entrySend`, `sendMessage`, `sendToBackend`) with the tuple-lets projected away, the pin-list laws
(`pinGet` / `pinAdd` / `pinDel`), and the `data` carried by an output. Core Lean only.
-/
import Proxy.Model
open GoStd Sip Proxy

namespace Lemmas

/-- the bytes an output carries -/
def outData : Out → Bytes
  | .backend _ d => d
  | .udp _ _ d => d
  | .conn _ d => d
  | .tcp _ _ d => d

/-! ### entrySend -/

theorem entrySend_length (e : TransEntry) (data : Bytes) : (entrySend e data).length ≤ 1 := by
  unfold entrySend
  split
  · simp
  · simp
  · split
    · split <;> simp
    · simp

theorem entrySend_data (e : TransEntry) (data : Bytes) : ∀ o ∈ entrySend e data, outData o = data := by
  intro o ho
  unfold entrySend at ho
  split at ho
  · simp at ho; subst ho; rfl
  · simp at ho; subst ho; rfl
  · split at ho
    · split at ho
      · simp at ho; subst ho; rfl
      · simp at ho
    · simp at ho

/-! ### sendMessage -/

/-- the message `sendMessage` prints: the input after the lazy CSeq / Via decoding of
`getClientTransaction` -/
def sentMessage (cfg : Cfg) (m : Message) : Message := (getClientTransaction cfg.cm m).2

/-- the transport lookup `sendMessage` performs -/
def sendLookup (cfg : Cfg) (st : St) (h : Hop) (m : Message) :=
  getTransport cfg st.trans h.transport ((getIp cfg h.host).getD h.host) h.port
    ((getClientTransaction cfg.cm m).1.getD [])

theorem sendMessage_out (cfg : Cfg) (st : St) (h : Hop) (m : Message) :
    (sendMessage cfg st h m).2 =
      match sendLookup cfg st h m with
      | none => []
      | some (_, _, e) => entrySend e ((sentMessage cfg m).bytes cfg.cm) := by
  unfold sendMessage sendLookup sentMessage
  simp only []
  split <;> first | rfl | (rename_i heq; simp only [heq]; done) | (rename_i heq; simp only [heq]; rfl)

theorem sendMessage_length (cfg : Cfg) (st : St) (h : Hop) (m : Message) :
    (sendMessage cfg st h m).2.length ≤ 1 := by
  rw [sendMessage_out]
  split
  · simp
  · exact entrySend_length _ _

theorem sendMessage_data (cfg : Cfg) (st : St) (h : Hop) (m : Message) :
    ∀ o ∈ (sendMessage cfg st h m).2, outData o = (sentMessage cfg m).bytes cfg.cm := by
  rw [sendMessage_out]
  split
  · intro o ho; cases ho
  · exact entrySend_data _ _

/-- `sendMessage` touches nothing but the transport table. -/
theorem sendMessage_state (cfg : Cfg) (st : St) (h : Hop) (m : Message) :
    (sendMessage cfg st h m).1.pins = st.pins ∧ (sendMessage cfg st h m).1.rr = st.rr ∧
    (sendMessage cfg st h m).1.backends = st.backends ∧ (sendMessage cfg st h m).1.learned = st.learned := by
  unfold sendMessage
  simp only []
  split <;> simp

/-! ### sendToBackend -/

/-- the backend object `sendToBackend` uses: the pinned one, else the rotation -/
def sbBackend (cfg : Cfg) (st : St) (m : Message) : BackendRef :=
  (findBackendByDialog cfg st m).1.getD .rotation

/-- `backend.Send`: a pinned member is used as it is, the rotation dispatches -/
def sbPick (rr : Side.RR.St) : BackendRef → Side.RR.St × Option Bytes
  | .member a => (rr, some a)
  | .rotation => Side.RR.dispatch rr

/-- the message `sendToBackend` prints -/
def sbMessage (cfg : Cfg) (st : St) (m : Message) (t0 : Listener) (branch : Bytes) : Message :=
  insertSelf cfg (findBackendByDialog cfg st m).2.2 t0 branch

theorem sendToBackend_none (cfg : Cfg) (st : St) (m : Message) (br : Bytes) (h0 : cfg.transports0 = none) :
    sendToBackend cfg st m br = (st, []) := by
  unfold sendToBackend
  rw [h0]

theorem sendToBackend_out (cfg : Cfg) (st : St) (m : Message) (br : Bytes) (t0 : Listener)
    (h0 : cfg.transports0 = some t0) :
    (sendToBackend cfg st m br).2 =
      match (sbPick st.rr (sbBackend cfg st m)).2 with
      | none => []
      | some a => [.backend a ((sbMessage cfg st m t0 br).bytes cfg.cm)] := by
  unfold sendToBackend sbBackend sbMessage
  rw [h0]
  simp only []
  cases (findBackendByDialog cfg st m).1.getD BackendRef.rotation with
  | member a => rfl
  | rotation =>
    simp only [sbPick]
    split <;> first | rfl | (rename_i heq; simp only [heq]; done) | (rename_i heq; simp only [heq]; rfl)

theorem sendToBackend_rr (cfg : Cfg) (st : St) (m : Message) (br : Bytes) (t0 : Listener)
    (h0 : cfg.transports0 = some t0) :
    (sendToBackend cfg st m br).1.rr = (sbPick st.rr (sbBackend cfg st m)).1 := by
  unfold sendToBackend sbBackend
  rw [h0]
  simp only []
  cases (findBackendByDialog cfg st m).1.getD BackendRef.rotation with
  | member a => rfl
  | rotation =>
    simp only [sbPick]
    split <;> first | rfl | (rename_i heq; simp only [heq]; done) | (rename_i heq; simp only [heq]; rfl)

/-- the pin list after `sendToBackend`: what `findBackendByDialog` left, plus (when something was
sent and the message has a transaction key) the transaction recorded against the backend used -/
theorem sendToBackend_pins (cfg : Cfg) (st : St) (m : Message) (br : Bytes) (t0 : Listener)
    (h0 : cfg.transports0 = some t0) :
    (sendToBackend cfg st m br).1.pins =
      match (sbPick st.rr (sbBackend cfg st m)).2 with
      | none => (findBackendByDialog cfg st m).2.1
      | some _ =>
        match (getClientTransaction cfg.cm (sbMessage cfg st m t0 br)).1 with
        | some k => pinAdd (findBackendByDialog cfg st m).2.1 k (sbBackend cfg st m)
                      (getExpires cfg.cm (getClientTransaction cfg.cm (sbMessage cfg st m t0 br)).2 0)
        | none => (findBackendByDialog cfg st m).2.1 := by
  unfold sendToBackend sbBackend sbMessage
  rw [h0]
  simp only []
  cases (findBackendByDialog cfg st m).1.getD BackendRef.rotation with
  | member a => rfl
  | rotation =>
    simp only [sbPick]
    split <;> first | rfl | (rename_i heq; simp only [heq]; done) | (rename_i heq; simp only [heq]; rfl)

theorem sendToBackend_length (cfg : Cfg) (st : St) (m : Message) (br : Bytes) :
    (sendToBackend cfg st m br).2.length ≤ 1 := by
  cases h0 : cfg.transports0 with
  | none => simp [sendToBackend_none cfg st m br h0]
  | some t0 =>
    rw [sendToBackend_out cfg st m br t0 h0]
    split <;> simp

/-- `findBackendByDialog` on a request, projected -/
theorem findBackendByDialog_request (cfg : Cfg) (st : St) (m : Message) (hreq : isRequest m = true) :
    (findBackendByDialog cfg st m).1 = (match (getDialog cfg.cm m).1 with
                                        | none => none
                                        | some d => pinGet st.pins d) ∧
    (findBackendByDialog cfg st m).2.2 = (getDialog cfg.cm m).2 := by
  unfold findBackendByDialog
  unfold isRequest at hreq
  split
  · split
    · rename_i h; simp [h]
    · rename_i h; simp [h]
  · rename_i hn
    split at hreq
    · rename_i a b c hs; exact absurd hs (hn a b c)
    · cases hreq

theorem findBackendByDialog_response (cfg : Cfg) (st : St) (m : Message) (hreq : isRequest m = false) :
    findBackendByDialog cfg st m = (none, st.pins, m) := by
  unfold findBackendByDialog
  unfold isRequest at hreq
  split
  · rename_i hs; rw [hs] at hreq; cases hreq
  · rfl

/-! ### the pin list -/

theorem pinGet_pinAdd_same (ps : List PinEntry) (k : Bytes) (b : BackendRef) (e : Int) :
    pinGet (pinAdd ps k b e) k = some b := by
  unfold pinGet pinAdd
  rw [List.find?_append]
  have : (ps.filter (fun x => x.key != k)).find? (fun e => e.key == k) = none := by
    rw [List.find?_eq_none]
    intro x hx
    have := (List.mem_filter.mp hx).2
    simpa using this
  simp [this]

theorem pinGet_pinDel_other (ps : List PinEntry) (k k' : Bytes) (hne : k' ≠ k) :
    pinGet (pinDel ps k') k = pinGet ps k := by
  unfold pinGet pinDel
  congr 1
  induction ps with
  | nil => rfl
  | cons p ps ih =>
    by_cases hk : p.key = k
    · subst hk
      have : (p.key != k') = true := by simp [Ne.symm hne]
      simp [this]
    · by_cases hk' : p.key = k'
      · simp [hk', hne, ih]
      · simp [hk', hk, ih]

theorem pinGet_pinDel_same (ps : List PinEntry) (k : Bytes) : pinGet (pinDel ps k) k = none := by
  unfold pinGet pinDel
  have : (ps.filter (fun x => x.key != k)).find? (fun e => e.key == k) = none := by
    rw [List.find?_eq_none]
    intro x hx
    have := (List.mem_filter.mp hx).2
    simpa using this
  simp [this]

theorem pinGet_pinAdd_other (ps : List PinEntry) (k k' : Bytes) (b : BackendRef) (e : Int) (hne : k' ≠ k) :
    pinGet (pinAdd ps k' b e) k = pinGet ps k := by
  have h1 := pinGet_pinDel_other ps k k' hne
  unfold pinGet pinDel at h1
  unfold pinGet pinAdd
  rw [List.find?_append]
  cases hf : (ps.filter (fun x => x.key != k')).find? (fun e => e.key == k) with
  | some x => rw [hf] at h1; simp [← h1]
  | none =>
    rw [hf] at h1
    simp [← h1, hne]

end Lemmas

namespace Lemmas

/-- `findBackendByDialog` forgets the pin it looks up exactly for a NOTIFY whose (raw)
Subscription-State is "terminated". -/
def terminates (cfg : Cfg) (m : Message) : Bool :=
  match m.start with
  | .request method _ _ =>
    method == str "NOTIFY" &&
      getRawHeader cfg.cm (getDialog cfg.cm m).2 subscriptionStateName == some (str "terminated")
  | _ => false

/-- the pin list `findBackendByDialog` leaves behind -/
theorem findBackendByDialog_pins (cfg : Cfg) (st : St) (m : Message) :
    (findBackendByDialog cfg st m).2.1 =
      match (getDialog cfg.cm m).1 with
      | some d => if terminates cfg m then pinDel st.pins d else st.pins
      | none => st.pins := by
  unfold findBackendByDialog terminates
  cases hs : m.start with
  | request method u v =>
    simp only []
    cases hd : getDialog cfg.cm m with
    | mk o m1 => cases o <;> simp
  | status a b c =>
    simp only []
    split <;> simp

end Lemmas
