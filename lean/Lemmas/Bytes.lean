/-
Lemmas.Bytes — cut / split / join laws (the bottom layer of every codec theorem).
Stated for the concrete `GoStd` functions; core Lean only.
-/
import GoStd.Bytes
open GoStd

namespace Lemmas

theorem cut_eq_none_iff (c : UInt8) (s : Bytes) : cut c s = none ↔ c ∉ s := by
  induction s with
  | nil => simp [cut]
  | cons b bs ih =>
    simp only [cut]
    by_cases h : b = c
    · simp [h]
    · simp only [h, ↓reduceIte, List.mem_cons]
      cases hc : cut c bs with
      | none =>
        have := ih.mp hc
        simp [this, Ne.symm h]
      | some p =>
        obtain ⟨l, r⟩ := p
        have : ¬ (c ∉ bs) := fun hn => by rw [ih.mpr hn] at hc; cases hc
        simp at this
        simp [this]

theorem cut_append_of_not_mem (c : UInt8) (l r : Bytes) (h : c ∉ l) :
    cut c (l ++ c :: r) = some (l, r) := by
  induction l with
  | nil => simp [cut]
  | cons b bs ih =>
    have hb : b ≠ c := fun e => h (by simp [e])
    have hbs : c ∉ bs := fun m => h (by simp [m])
    simp [cut, hb, ih hbs]

theorem cut_some (c : UInt8) (s l r : Bytes) (h : cut c s = some (l, r)) :
    s = l ++ c :: r ∧ c ∉ l := by
  induction s generalizing l with
  | nil => simp [cut] at h
  | cons b bs ih =>
    simp only [cut] at h
    by_cases hb : b = c
    · simp only [hb, ↓reduceIte, Option.some.injEq, Prod.mk.injEq] at h
      obtain ⟨rfl, rfl⟩ := h
      simp [hb]
    · simp only [hb, ↓reduceIte] at h
      cases hc : cut c bs with
      | none => simp [hc] at h
      | some p =>
        obtain ⟨l', r'⟩ := p
        simp only [hc, Option.some.injEq, Prod.mk.injEq] at h
        obtain ⟨rfl, rfl⟩ := h
        have := ih l' hc
        refine ⟨by rw [this.1]; simp, ?_⟩
        simp only [List.mem_cons, not_or]
        exact ⟨Ne.symm hb, this.2⟩

theorem cut_of_not_mem (c : UInt8) (s : Bytes) (h : c ∉ s) : cut c s = none :=
  (cut_eq_none_iff c s).mpr h

theorem split_ne_nil (c : UInt8) (s : Bytes) : split c s ≠ [] := by
  induction s with
  | nil => simp [split]
  | cons b bs ih =>
    simp only [split]
    split
    · simp
    · split <;> simp

theorem split_of_not_mem (c : UInt8) (s : Bytes) (h : c ∉ s) : split c s = [s] := by
  induction s with
  | nil => simp [split]
  | cons b bs ih =>
    have hb : b ≠ c := fun e => h (by simp [e])
    have hbs : c ∉ bs := fun m => h (by simp [m])
    simp [split, hb, ih hbs]

theorem split_append_sep (c : UInt8) (l r : Bytes) (h : c ∉ l) :
    split c (l ++ c :: r) = l :: split c r := by
  induction l with
  | nil => simp [split]
  | cons b bs ih =>
    have hb : b ≠ c := fun e => h (by simp [e])
    have hbs : c ∉ bs := fun m => h (by simp [m])
    simp [split, hb, ih hbs]

/-- `strings.Join(strings.Split(s, c), c) = s` for every s. -/
theorem join_split (c : UInt8) (s : Bytes) : join [c] (split c s) = s := by
  induction s with
  | nil => simp [split, join]
  | cons b bs ih =>
    simp only [split]
    by_cases hb : b = c
    · simp only [hb, ↓reduceIte]
      cases hs : split c bs with
      | nil => exact absurd hs (split_ne_nil c bs)
      | cons p ps =>
        rw [hs] at ih
        simp [join, ih]
    · simp only [hb, ↓reduceIte]
      cases hs : split c bs with
      | nil => exact absurd hs (split_ne_nil c bs)
      | cons p ps =>
        rw [hs] at ih
        cases ps with
        | nil => simp [join] at ih ⊢; exact ih
        | cons q qs => simp [join] at ih ⊢; exact ih

/-- `strings.Split(strings.Join(ps, c), c) = ps` when no part contains the separator. -/
theorem split_join (c : UInt8) (ps : List Bytes) (hne : ps ≠ []) (h : ∀ p ∈ ps, c ∉ p) :
    split c (join [c] ps) = ps := by
  induction ps with
  | nil => exact absurd rfl hne
  | cons p qs ih =>
    cases qs with
    | nil =>
      simp only [join]
      exact split_of_not_mem c p (h p (by simp))
    | cons q rs =>
      simp only [join]
      have hp : c ∉ p := h p (by simp)
      have := ih (by simp) (fun x hx => h x (by simp [hx]))
      rw [List.append_assoc, List.singleton_append, split_append_sep c p _ hp, this]

theorem mem_of_mem_split (c : UInt8) (s p : Bytes) (h : p ∈ split c s) : c ∉ p := by
  induction s generalizing p with
  | nil => simp [split] at h; simp [h]
  | cons b bs ih =>
    simp only [split] at h
    by_cases hb : b = c
    · simp only [hb, ↓reduceIte, List.mem_cons] at h
      rcases h with rfl | h
      · simp
      · exact ih p h
    · simp only [hb, ↓reduceIte] at h
      cases hs : split c bs with
      | nil => exact absurd hs (split_ne_nil c bs)
      | cons q qs =>
        rw [hs] at h
        simp only [List.mem_cons] at h
        rcases h with rfl | h
        · have := ih q (by rw [hs]; simp)
          simp only [List.mem_cons, not_or]
          exact ⟨Ne.symm hb, this⟩
        · exact ih p (by rw [hs]; simp [h])

end Lemmas
