/-
Lemmas.Lockset — helper lemmas for Side.Lockset: pointwise update, the held-set fold, how one step
changes a state, and soundness of the Boolean checkers used for concrete systems.
-/
import Side.Lockset
open Side.Lockset
set_option autoImplicit false

namespace Lemmas.Lockset

/-! ### pointwise update -/

@[simp] theorem upd_same {β : Type} (f : Nat → β) (k : Nat) (v : β) : upd f k v k = v := by
  simp [upd]

theorem upd_other {β : Type} (f : Nat → β) {k i : Nat} (v : β) (h : i ≠ k) : upd f k v i = f i := by
  simp [upd, h]

/-! ### programs of a system -/

theorem progOf_eq_nil_or_mem (sys : Sys) (t : ThreadId) : progOf sys t = [] ∨ progOf sys t ∈ sys := by
  unfold progOf
  cases h : sys[t]? with
  | none => left; rfl
  | some P => right; simpa using List.mem_of_getElem? h

theorem progOf_of_length_le {sys : Sys} {t : ThreadId} (h : sys.length ≤ t) : progOf sys t = [] := by
  simp [progOf, List.getElem?_eq_none h]

theorem progOf_of_lt {sys : Sys} {t : ThreadId} (h : t < sys.length) : progOf sys t = sys[t] := by
  simp [progOf, List.getElem?_eq_getElem h]

theorem lt_length_of_progOf_ne_nil {sys : Sys} {t : ThreadId} (h : progOf sys t ≠ []) : t < sys.length := by
  apply Nat.lt_of_not_le
  intro hle
  exact h (progOf_of_length_le hle)

theorem lt_length_of_getElem? {sys : Sys} {t : ThreadId} {pc : Nat} {a : Action}
    (h : (progOf sys t)[pc]? = some a) : t < sys.length := by
  apply lt_length_of_progOf_ne_nil
  intro hnil
  simp [hnil] at h

/-! ### the held-set fold -/

@[simp] theorem held_zero (P : Prog) : held P 0 = [] := by simp [held]

theorem held_succ {P : Prog} {pc : Nat} {a : Action} (h : P[pc]? = some a) :
    held P (pc + 1) = stepHeld (held P pc) a := by
  simp [held, List.take_add_one, h, List.foldl_append]

theorem held_of_length_le {P : Prog} {pc : Nat} (h : P.length ≤ pc) : held P pc = held P P.length := by
  simp [held, List.take_of_length_le h]

@[simp] theorem held_nil (pc : Nat) : held [] pc = [] := by simp [held]

theorem mem_stepHeld_acq {H : List Lock} {l l' : Lock} : l ∈ stepHeld H (.acq l') ↔ l = l' ∨ l ∈ H := by
  simp [stepHeld]

theorem mem_stepHeld_rel {H : List Lock} {l l' : Lock} : l ∈ stepHeld H (.rel l') ↔ l ∈ H ∧ l ≠ l' := by
  simp [stepHeld]

@[simp] theorem stepHeld_access {H : List Lock} {x : Loc} {w : Bool} : stepHeld H (.access x w) = H := rfl

/-! ### executable stepping is sound -/

theorem stepFn_sound {sys : Sys} {σ σ' : State} {t : ThreadId} (h : stepFn sys σ t = some σ') :
    Step sys σ σ' := by
  unfold stepFn at h
  split at h
  · next l hn =>
    split at h
    · next hl =>
      cases h
      exact Step.acq t l hn (by simpa using hl)
    · cases h
  · next l hn =>
    split at h
    · next hl =>
      cases h
      obtain ⟨u, hu⟩ := Option.isSome_iff_exists.mp hl
      exact Step.rel t l u hn hu
    · cases h
  · next x w hn =>
    cases h
    exact Step.access t x w hn
  · cases h

theorem run_reachable {sys : Sys} (sched : List ThreadId) {σ σ' : State}
    (hσ : Reachable sys σ) (h : run sys σ sched = some σ') : Reachable sys σ' := by
  induction sched generalizing σ with
  | nil => simp [run] at h; exact h ▸ hσ
  | cons t ts ih =>
    simp only [run] at h
    cases hs : stepFn sys σ t with
    | none => simp [hs] at h
    | some σ₁ =>
      simp [hs] at h
      exact ih (Reachable.step hσ (stepFn_sound hs)) h

/-- every step is a step of `stepFn` (so `run` explores exactly the step relation) -/
theorem stepFn_complete {sys : Sys} {σ σ' : State} (h : Step sys σ σ') :
    ∃ t, stepFn sys σ t = some σ' := by
  cases h with
  | acq t l hn hl => exact ⟨t, by simp [stepFn, hn, hl]⟩
  | rel t l u hn hl => exact ⟨t, by simp [stepFn, hn, hl]⟩
  | access t x w hn => exact ⟨t, by simp [stepFn, hn]⟩

/-! ### the computed table describes the system -/

theorem mem_progRows {t : ThreadId} {P : Prog} {pc : Nat} {x : Loc} {w : Bool}
    (h : P[pc]? = some (.access x w)) : (⟨x, w, held P pc, t⟩ : AccessRow) ∈ progRows t P := by
  have hlt : pc < P.length := by
    apply Nat.lt_of_not_le
    intro hle
    simp [List.getElem?_eq_none hle] at h
  unfold progRows
  rw [List.mem_filterMap]
  exact ⟨pc, List.mem_range.mpr hlt, by simp [h]⟩

theorem mem_sysRows {sys : Sys} {t : ThreadId} {pc : Nat} {x : Loc} {w : Bool}
    (h : (progOf sys t)[pc]? = some (.access x w)) :
    (⟨x, w, held (progOf sys t) pc, t⟩ : AccessRow) ∈ sysRows sys := by
  unfold sysRows
  rw [List.mem_flatMap]
  exact ⟨t, List.mem_range.mpr (lt_length_of_getElem? h), mem_progRows h⟩

/-- every computed row comes from an access position -/
theorem of_mem_sysRows {sys : Sys} {r : AccessRow} (h : r ∈ sysRows sys) :
    ∃ pc, (progOf sys r.thread)[pc]? = some (.access r.loc r.write) ∧
      r.locks = held (progOf sys r.thread) pc := by
  unfold sysRows at h
  rw [List.mem_flatMap] at h
  obtain ⟨t, _, h⟩ := h
  unfold progRows at h
  rw [List.mem_filterMap] at h
  obtain ⟨pc, _, h⟩ := h
  split at h
  · next x w ha =>
    cases h
    exact ⟨pc, ha, rfl⟩
  · cases h

theorem sysRows_describes (sys : Sys) : Describes (sysRows sys) sys := by
  intro t pc x w h
  exact ⟨⟨x, w, held (progOf sys t) pc, t⟩, mem_sysRows h, rfl, rfl, rfl, fun l hl => hl⟩

theorem describesRolesB_sound {role : ThreadId → Nat} {rows : List AccessRow} {sys : Sys}
    (h : describesRolesB role rows sys = true) : DescribesRoles role rows sys := by
  intro t pc x w ha
  unfold describesRolesB at h
  rw [List.all_eq_true] at h
  have := h _ (mem_sysRows ha)
  rw [List.any_eq_true] at this
  obtain ⟨r, hr, hok⟩ := this
  simp only [Bool.and_eq_true, beq_iff_eq, List.all_eq_true, List.contains_iff_mem] at hok
  obtain ⟨⟨⟨hx, hw⟩, ht⟩, hl⟩ := hok
  exact ⟨r, hr, hx, hw, ht, hl⟩

theorem describesB_sound {rows : List AccessRow} {sys : Sys}
    (h : describesB rows sys = true) : Describes rows sys :=
  describesRolesB_sound (role := fun t => t) h

theorem singleInstanceB_sound {multi : Nat → Bool} {role : ThreadId → Nat} {sys : Sys}
    (h : singleInstanceB multi role sys = true) : SingleInstance multi role sys := by
  intro t₁ t₂ h₁ h₂ hr hm
  unfold singleInstanceB at h
  rw [List.all_eq_true] at h
  have := h t₁ (List.mem_range.mpr h₁)
  rw [List.all_eq_true] at this
  have := this t₂ (List.mem_range.mpr h₂)
  have hm' : multi (role t₂) = false := hr ▸ hm
  simpa [hr, hm'] using this

/-! ### soundness of the syntactic checkers -/

theorem wellBracketedProgB_sound {P : Prog} (h : wellBracketedProgB P = true) : WellBracketedProg P := by
  intro pc l
  unfold wellBracketedProgB at h
  rw [List.all_eq_true] at h
  have key : ∀ a, P[pc]? = some a → pc ∈ List.range P.length := by
    intro a ha
    apply List.mem_range.mpr
    apply Nat.lt_of_not_le
    intro hle
    simp [List.getElem?_eq_none hle] at ha
  constructor
  · intro ha
    have := h pc (key _ ha)
    simpa [ha] using this
  · intro ha
    have := h pc (key _ ha)
    simpa [ha] using this

theorem wellBracketedB_sound {sys : Sys} (h : wellBracketedB sys = true) : WellBracketed sys := by
  intro P hP
  unfold wellBracketedB at h
  rw [List.all_eq_true] at h
  exact wellBracketedProgB_sound (h P hP)

theorem wellBracketedProg_nil : WellBracketedProg [] := by
  intro pc l; simp

theorem wellBracketed_progOf {sys : Sys} (h : WellBracketed sys) (t : ThreadId) :
    WellBracketedProg (progOf sys t) := by
  rcases progOf_eq_nil_or_mem sys t with hn | hm
  · rw [hn]; exact wellBracketedProg_nil
  · exact h _ hm

theorem lockOrderB_sound {sys : Sys} {rank : Lock → Nat} (h : lockOrderB sys rank = true) :
    LockOrder sys rank := by
  intro l₁ l₂ ⟨t, pc, ha, hl⟩
  unfold lockOrderB at h
  rw [List.all_eq_true] at h
  rcases progOf_eq_nil_or_mem sys t with hn | hm
  · simp [hn] at ha
  · have hP := h _ hm
    unfold lockOrderProgB at hP
    rw [List.all_eq_true] at hP
    have hlt : pc ∈ List.range (progOf sys t).length := by
      apply List.mem_range.mpr
      apply Nat.lt_of_not_le
      intro hle
      simp [List.getElem?_eq_none hle] at ha
    have := hP pc hlt
    simp only [ha, List.all_eq_true, decide_eq_true_eq] at this
    exact this l₁ hl

theorem balancedB_sound {sys : Sys} (h : balancedB sys = true) : Balanced sys := by
  intro P hP
  unfold balancedB at h
  rw [List.all_eq_true] at h
  simpa using h P hP

theorem balanced_progOf {sys : Sys} (h : Balanced sys) (t : ThreadId) :
    held (progOf sys t) (progOf sys t).length = [] := by
  rcases progOf_eq_nil_or_mem sys t with hn | hm
  · rw [hn]; simp
  · exact h _ hm

theorem dataRaceB_sound {sys : Sys} {σ : State} (h : dataRaceB sys σ = true) : DataRace sys σ := by
  unfold dataRaceB at h
  rw [List.any_eq_true] at h
  obtain ⟨t₁, _, h⟩ := h
  rw [List.any_eq_true] at h
  obtain ⟨t₂, _, h⟩ := h
  rw [Bool.and_eq_true] at h
  obtain ⟨hne, h⟩ := h
  split at h
  · next x w₁ y w₂ h₁ h₂ =>
    rw [Bool.and_eq_true] at h
    have hxy : x = y := by simpa using h.1
    subst hxy
    exact ⟨t₁, t₂, x, w₁, w₂, by simpa using hne, h₁, h₂, h.2⟩
  · cases h

/-! ### a maximal element of a non-empty list -/

theorem exists_max (f : Nat → Nat) : ∀ (S : List Nat), S ≠ [] → ∃ t ∈ S, ∀ t' ∈ S, f t' ≤ f t
  | [], h => absurd rfl h
  | [a], _ => ⟨a, by simp, by simp⟩
  | a :: b :: S, _ => by
    obtain ⟨m, hm, hmax⟩ := exists_max f (b :: S) (by simp)
    by_cases hle : f a ≤ f m
    · refine ⟨m, List.mem_cons_of_mem _ hm, ?_⟩
      intro t' ht'
      rcases List.mem_cons.mp ht' with rfl | ht'
      · exact hle
      · exact hmax t' ht'
    · refine ⟨a, List.mem_cons_self, ?_⟩
      intro t' ht'
      rcases List.mem_cons.mp ht' with rfl | ht'
      · exact Nat.le_refl _
      · exact Nat.le_trans (hmax t' ht') (Nat.le_of_lt (Nat.lt_of_not_le hle))

end Lemmas.Lockset
