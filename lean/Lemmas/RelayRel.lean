/-
Lemmas.RelayRel — the relation `Rel` (same start line, same body, same not-owned headers) along
the functions of `Proxy/Model.lean`: hop selection, own Via / Record-Route, handleRawMessage,
handleDialog, and the bytes carried by every output of sendMessage / sendToBackend / handleMessage.
Core Lean only.
-/
import Lemmas.Others
import Lemmas.Relay
open GoStd Sip Proxy

namespace Lemmas

theorem getClientTransaction_rel' {cm : List (Bytes × Bytes)} {m m' : Message} {x : Option Bytes}
    (hr : RoundTrips cm m.headers) (h : getClientTransaction cm m = (x, m')) : Rel cm m m' := by
  have := getClientTransaction_rel cm m hr
  rw [h] at this; exact this

theorem getDialog_rel' {cm : List (Bytes × Bytes)} {m m' : Message} {x : Option Bytes}
    (hr : RoundTrips cm m.headers) (h : getDialog cm m = (x, m')) : Rel cm m m' := by
  have := getDialog_rel cm m hr
  rw [h] at this; exact this

/-! ### hops -/

theorem getNextResponseHop_rel (cfg : Cfg) (m : Message) : Rel cfg.cm m (getNextResponseHop cfg m).2 := by
  unfold getNextResponseHop
  split
  · exact Rel.refl _ _
  · rename_i v m' hv
    have h1 := getVia_rel cfg.cm hv
    split
    · exact h1
    · split <;> exact h1

theorem getNextRequestHopByRoute_rel (cfg : Cfg) (m : Message) :
    Rel cfg.cm m (getNextRequestHopByRoute cfg m).2 := by
  unfold getNextRequestHopByRoute
  split
  · exact Rel.refl _ _
  · rename_i r m1 hg
    have h1 := getRoute_rel cfg.cm hg
    split
    · exact h1
    · extract_lets m2
      have h2 : Rel cfg.cm m1 m2 := by
        show Rel cfg.cm m1 (if (!cfg.keepNextHopRoute) = true then (popRoute cfg.cm m1).getD m1 else m1)
        split
        · exact popRoute_getD_rel cfg.cm m1
        · exact Rel.refl _ _
      split <;> exact h1.trans cfg.cm h2

theorem getNextRequestHopByConfig_rel (cfg : Cfg) (m : Message) (hr : RoundTrips cfg.cm m.headers) :
    Rel cfg.cm m (getNextRequestHopByConfig cfg m).2 := by
  unfold getNextRequestHopByConfig
  split
  · exact Rel.refl _ _
  · rename_i t m1 hg
    have h1 := getTo_rel cfg.cm hr hg
    split
    · exact h1
    · split <;> exact h1

theorem getNextRequestHop_rel (cfg : Cfg) (m : Message) (hr : RoundTrips cfg.cm m.headers) :
    Rel cfg.cm m (getNextRequestHop cfg m).2 := by
  have h1 := getNextRequestHopByRoute_rel cfg m
  unfold getNextRequestHop
  split
  · rename_i h m1 hh; rw [hh] at h1; exact h1
  · rename_i m1 hh
    rw [hh] at h1
    exact h1.trans cfg.cm (getNextRequestHopByConfig_rel cfg m1 (h1.roundTrips cfg.cm hr))

/-! ### own Via / Record-Route -/

theorem insertSelf_rel (cfg : Cfg) (m : Message) (t : Listener) (branch : Bytes) :
    Rel cfg.cm m (insertSelf cfg m t branch) := by
  unfold insertSelf
  extract_lets m1
  have h1 : Rel cfg.cm m m1 := addVia_rel cfg.cm m _
  split
  · exact h1
  · exact h1.trans cfg.cm (addRecordRoute_rel cfg.cm m1 _)

/-! ### handleRawMessage -/

theorem handleRawMessage_rel (cfg : Cfg) (st : St) (ev : RawEv) (hr : RoundTrips cfg.cm ev.msg.headers) :
    Rel cfg.cm ev.msg (handleRawMessage cfg st ev).2 := by
  unfold handleRawMessage
  extract_lets m0 req
  split
  rename_i learned1 m1 h1
  extract_lets m2
  split
  rename_i trans1 m3 h3
  extract_lets m4
  have R1 : Rel cfg.cm ev.msg m1 := by
    split at h1
    · cases h1; exact forEachVia_rel cfg.cm ev.msg
    · cases h1; exact Rel.refl _ _
  have R2 : Rel cfg.cm m1 m2 := by
    show Rel cfg.cm m1 (if (req && ev.receivedSupport) = true then setReceived cfg.cm m1 ev.peerAddr ev.peerPort else m1)
    split
    · exact setReceived_rel _ _ _ _
    · exact Rel.refl _ _
  have R12 := R1.trans cfg.cm R2
  have R3 : Rel cfg.cm m2 m3 := by
    split at h3
    · have hh := getNextResponseHop_rel cfg m2
      split at h3
      · rename_i m' hn; cases h3; rw [hn] at hh; exact hh
      · rename_i hop m' hn
        rw [hn] at hh
        have hr' := (R12.trans cfg.cm hh).roundTrips cfg.cm hr
        split at h3
        · rename_i m'' hc; cases h3; exact hh.trans cfg.cm (getClientTransaction_rel' hr' hc)
        · rename_i tid m'' hc
          have h2 := hh.trans cfg.cm (getClientTransaction_rel' hr' hc)
          split at h3 <;> (cases h3; exact h2)
    · cases h3; exact Rel.refl _ _
  have R4 : Rel cfg.cm m3 m4 := by
    show Rel cfg.cm m3 (match getRoute cfg.cm m3 with
      | none => m3
      | some (r, m') => _)
    split
    · exact Rel.refl _ _
    · rename_i r m' hg
      have h1 := getRoute_rel cfg.cm hg
      split
      · exact h1
      · split
        · exact h1
        · extract_lets same
          split
          · exact h1.trans cfg.cm (popRoute_getD_rel cfg.cm m')
          · exact h1
  exact (R12.trans cfg.cm R3).trans cfg.cm R4

/-! ### handleDialog -/

theorem handleDialog_rel (cfg : Cfg) (st : St) (pa : Bytes) (pp : Int) (m : Message)
    (hr : RoundTrips cfg.cm m.headers) : Rel cfg.cm m (handleDialog cfg st pa pp m).2 := by
  unfold handleDialog
  split
  · exact Rel.refl _ _
  · extract_lets addr
    split
    rename_i backend pins1 m1 h1
    have R1 : Rel cfg.cm m m1 := by
      split at h1
      · cases h1; exact Rel.refl _ _
      · split at h1
        · rename_i m' hc; cases h1; exact getClientTransaction_rel' hr hc
        · rename_i tid m' hc; cases h1; exact getClientTransaction_rel' hr hc
    have hr1 := R1.roundTrips cfg.cm hr
    split
    · exact R1
    · split
      · exact R1
      · rename_i method m2 hm
        have R2 := R1.trans cfg.cm (getMethod_rel cfg.cm hr1 hm)
        have hr2 := R2.roundTrips cfg.cm hr
        split
        · split
          · rename_i d m3 hd
            have R3 := R2.trans cfg.cm (getDialog_rel' hr2 hd)
            split <;> exact R3
          · rename_i m3 hd
            exact R2.trans cfg.cm (getDialog_rel' hr2 hd)
        · split
          · split
            · rename_i d m3 hd
              have R3 := R2.trans cfg.cm (getDialog_rel' hr2 hd)
              split <;> exact R3
            · rename_i m3 hd
              exact R2.trans cfg.cm (getDialog_rel' hr2 hd)
          · exact R2

/-! ### what the outputs carry -/

/-- `o` carries the printed form of a message related to `m` -/
def Carries (cfg : Cfg) (m : Message) (o : Out) : Prop :=
  ∃ m', Rel cfg.cm m m' ∧ outData o = m'.bytes cfg.cm

theorem Carries.of_rel {cfg : Cfg} {m m1 : Message} {o : Out} (h : Rel cfg.cm m m1) (hc : Carries cfg m1 o) :
    Carries cfg m o := by
  obtain ⟨m', h1, h2⟩ := hc
  exact ⟨m', h.trans cfg.cm h1, h2⟩

theorem sendMessage_carries (cfg : Cfg) (st : St) (h : Hop) (m : Message) (hr : RoundTrips cfg.cm m.headers) :
    ∀ o ∈ (sendMessage cfg st h m).2, Carries cfg m o := by
  intro o ho
  exact ⟨sentMessage cfg m, getClientTransaction_rel cfg.cm m hr, sendMessage_data cfg st h m o ho⟩

theorem findBackendByDialog_rel (cfg : Cfg) (st : St) (m : Message) (hr : RoundTrips cfg.cm m.headers) :
    Rel cfg.cm m (findBackendByDialog cfg st m).2.2 := by
  cases hreq : isRequest m with
  | true =>
    rw [(findBackendByDialog_request cfg st m hreq).2]
    exact getDialog_rel cfg.cm m hr
  | false =>
    rw [findBackendByDialog_response cfg st m hreq]
    exact Rel.refl _ _

theorem sendToBackend_carries (cfg : Cfg) (st : St) (m : Message) (br : Bytes) (hr : RoundTrips cfg.cm m.headers) :
    ∀ o ∈ (sendToBackend cfg st m br).2, Carries cfg m o := by
  intro o ho
  cases h0 : cfg.transports0 with
  | none => rw [sendToBackend_none cfg st m br h0] at ho; cases ho
  | some t0 =>
    rw [sendToBackend_out cfg st m br t0 h0] at ho
    split at ho
    · cases ho
    · simp only [List.mem_singleton] at ho
      subst ho
      exact ⟨sbMessage cfg st m t0 br,
        (findBackendByDialog_rel cfg st m hr).trans cfg.cm (insertSelf_rel cfg _ t0 br), rfl⟩

theorem handleMessage_carries (cfg : Cfg) (st : St) (ev : RawEv) (m : Message) (hr : RoundTrips cfg.cm m.headers) :
    ∀ o ∈ (handleMessage cfg st ev m).2, Carries cfg m o := by
  unfold handleMessage
  split
  · have hh := getNextRequestHop_rel cfg m hr
    split
    · rename_i hop m1 hn
      rw [hn] at hh
      extract_lets m2
      have R2 : Rel cfg.cm m1 m2 := by
        show Rel cfg.cm m1 (match assocGet st.learned hop.host with
          | some t => insertSelf cfg m1 t ev.branch
          | none => m1)
        split
        · exact insertSelf_rel cfg m1 _ _
        · exact Rel.refl _ _
      have R := hh.trans cfg.cm R2
      intro o ho
      exact Carries.of_rel R (sendMessage_carries cfg st hop m2 (R.roundTrips cfg.cm hr) o ho)
    · rename_i m1 hn
      rw [hn] at hh
      split
      · intro o ho
        exact Carries.of_rel hh (sendToBackend_carries cfg st m1 ev.branch (hh.roundTrips cfg.cm hr) o ho)
      · intro o ho; cases ho
  · extract_lets m1
    have R1 : Rel cfg.cm m m1 := popVia_getD_rel cfg.cm m
    split
    rename_i hop m2 h2
    have R2 : Rel cfg.cm m1 m2 := by
      have := getNextResponseHop_rel cfg m1
      rw [h2] at this; exact this
    have R12 := R1.trans cfg.cm R2
    have hr2 := R12.roundTrips cfg.cm hr
    split
    rename_i st1 m3 h3
    have R3 : Rel cfg.cm m2 m3 := by
      split at h3
      · rename_i method m' hm
        have hm' := getMethod_rel cfg.cm hr2 hm
        split at h3
        · extract_lets addr at h3
          split at h3
          · split at h3
            · rename_i d m'' hd
              cases h3
              exact hm'.trans cfg.cm (getDialog_rel' (hm'.roundTrips cfg.cm hr2) hd)
            · rename_i m'' hd
              cases h3
              exact hm'.trans cfg.cm (getDialog_rel' (hm'.roundTrips cfg.cm hr2) hd)
          · cases h3; exact hm'
        · cases h3; exact hm'
      · cases h3; exact Rel.refl _ _
    have R := R12.trans cfg.cm R3
    split
    · intro o ho; cases ho
    · intro o ho
      exact Carries.of_rel R (sendMessage_carries cfg st1 _ m3 (R.roundTrips cfg.cm hr) o ho)

theorem step_carries (cfg : Cfg) (st : St) (ev : RawEv) (hr : RoundTrips cfg.cm ev.msg.headers) :
    ∀ o ∈ (step cfg st ev).2, Carries cfg ev.msg o := by
  unfold step
  have R1 := handleRawMessage_rel cfg st ev hr
  have R2 := handleDialog_rel cfg (handleRawMessage cfg st ev).1 ev.peerAddr ev.peerPort
    (handleRawMessage cfg st ev).2 (R1.roundTrips cfg.cm hr)
  have R := R1.trans cfg.cm R2
  intro o ho
  exact Carries.of_rel R (handleMessage_carries cfg _ ev _ (R.roundTrips cfg.cm hr) o ho)

end Lemmas
