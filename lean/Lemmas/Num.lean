/-
Lemmas.Num — decimal printing and parsing are inverse: atoi (itoa n) = n.
-/
import GoStd.Bytes
open GoStd

namespace Lemmas

theorem digit_isDigit (n : Nat) (h : n < 10) : isDigit (UInt8.ofNat (48 + n)) = true := by
  have : n = 0 ∨ n = 1 ∨ n = 2 ∨ n = 3 ∨ n = 4 ∨ n = 5 ∨ n = 6 ∨ n = 7 ∨ n = 8 ∨ n = 9 := by omega
  rcases this with h | h | h | h | h | h | h | h | h | h <;> subst h <;> decide

theorem digit_val (n : Nat) (h : n < 10) : (UInt8.ofNat (48 + n)).toNat - 48 = n := by
  have : n = 0 ∨ n = 1 ∨ n = 2 ∨ n = 3 ∨ n = 4 ∨ n = 5 ∨ n = 6 ∨ n = 7 ∨ n = 8 ∨ n = 9 := by omega
  rcases this with h | h | h | h | h | h | h | h | h | h <;> subst h <;> decide

/-- value of a digit string in front of an accumulator -/
theorem foldl_digits_append (ds : Bytes) (acc : Nat) :
    ds.foldl (fun a d => a * 10 + (d.toNat - 48)) acc = acc * 10 ^ ds.length + digitsVal ds := by
  induction ds generalizing acc with
  | nil => simp [digitsVal]
  | cons d ds ih =>
    simp only [List.foldl_cons, digitsVal, List.length_cons]
    rw [ih, ih (0 * 10 + (d.toNat - 48))]
    rw [Nat.pow_succ]
    simp only [Nat.zero_mul, Nat.zero_add]
    rw [Nat.add_mul, Nat.mul_assoc, Nat.mul_comm 10 (10 ^ ds.length)]
    omega

theorem digitsVal_cons (d : UInt8) (ds : Bytes) :
    digitsVal (d :: ds) = (d.toNat - 48) * 10 ^ ds.length + digitsVal ds := by
  simp only [digitsVal, List.foldl_cons]
  have := foldl_digits_append ds (0 * 10 + (d.toNat - 48))
  simp only [Nat.zero_mul, Nat.zero_add] at this
  simpa [digitsVal] using this

/-- the digit loop: all digits, non-empty, and the value is n * 10^|acc| + value(acc) -/
theorem natDigitsAux_spec (fuel n : Nat) (acc : Bytes) (hf : n < fuel) (hacc : acc.all isDigit = true) :
    (natDigitsAux fuel n acc).all isDigit = true ∧ natDigitsAux fuel n acc ≠ [] ∧
    digitsVal (natDigitsAux fuel n acc) = n * 10 ^ acc.length + digitsVal acc := by
  induction fuel generalizing n acc with
  | zero => omega
  | succ fuel ih =>
    simp only [natDigitsAux]
    have hd : n % 10 < 10 := Nat.mod_lt _ (by omega)
    have hall : (UInt8.ofNat (48 + n % 10) :: acc).all isDigit = true := by
      simp only [List.all_cons, digit_isDigit _ hd, hacc, Bool.and_self]
    split
    · rename_i hz
      refine ⟨hall, by simp, ?_⟩
      rw [digitsVal_cons, digit_val _ hd]
      have : n % 10 = n := by omega
      rw [this]
    · rename_i hz
      have hlt : n / 10 < fuel := by omega
      obtain ⟨h1, h2, h3⟩ := ih (n / 10) (UInt8.ofNat (48 + n % 10) :: acc) hlt hall
      refine ⟨h1, h2, ?_⟩
      rw [h3, digitsVal_cons, digit_val _ hd, List.length_cons, Nat.pow_succ]
      have := Nat.div_add_mod n 10
      calc n / 10 * (10 ^ acc.length * 10) + (n % 10 * 10 ^ acc.length + digitsVal acc)
          = (10 * (n / 10) + n % 10) * 10 ^ acc.length + digitsVal acc := by
            rw [Nat.add_mul, Nat.mul_comm (10 ^ acc.length) 10, ← Nat.mul_assoc, Nat.mul_comm (n / 10) 10]; omega
        _ = n * 10 ^ acc.length + digitsVal acc := by rw [this]

theorem natToBytes_spec (n : Nat) :
    (natToBytes n).all isDigit = true ∧ natToBytes n ≠ [] ∧ digitsVal (natToBytes n) = n := by
  obtain ⟨h1, h2, h3⟩ := natDigitsAux_spec (n + 1) n [] (by omega) (by simp)
  refine ⟨h1, h2, ?_⟩
  simpa [natToBytes, digitsVal] using h3

/-- a digit string has no sign to split off -/
theorem splitSign_digits (ds : Bytes) (h : ds.all isDigit = true) : splitSign ds = (false, ds) := by
  unfold splitSign
  split
  · simp [isDigit] at h
  · simp [isDigit] at h
  · rfl

/-- `strconv.Atoi(strconv.Itoa(n)) = n` for every n an int64 can hold (non-negative half). -/
theorem atoi_natToBytes (n : Nat) (h : n ≤ 9223372036854775807) : atoi (natToBytes n) = some (Int.ofNat n) := by
  obtain ⟨h1, h2, h3⟩ := natToBytes_spec n
  have hne : (natToBytes n).isEmpty = false := by
    cases hx : natToBytes n with
    | nil => exact absurd hx h2
    | cons _ _ => rfl
  simp [atoi, splitSign_digits _ h1, atoiDigits, hne, h1, h3, h]

theorem atoi_itoa_nonneg (n : Nat) (h : n ≤ 9223372036854775807) : atoi (itoa (Int.ofNat n)) = some (Int.ofNat n) := by
  simpa [itoa] using atoi_natToBytes n h

/-- digits only: no separator byte below '0' or above '9' occurs in a printed number -/
theorem natToBytes_digits (n : Nat) : ∀ b ∈ natToBytes n, 48 ≤ b ∧ b ≤ 57 := by
  intro b hb
  have := (natToBytes_spec n).1
  have hb' := List.all_eq_true.mp this b hb
  simpa [isDigit] using hb'

end Lemmas
