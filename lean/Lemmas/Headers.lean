/-
Lemmas.Headers — re-spelling header names inside their class (letter case, compact form) is
invisible to the typed getters: they find the same values and update the same positions.
-/
import Sip.Message
open GoStd Sip

namespace Lemmas

section
variable (cm : List (Bytes × Bytes)) (P : Bytes → Prop)

/-- `h'` is `h` with its name re-spelled: same value, and member of the same classes among the header
classes `P` that are looked at. -/
def Respelled (h h' : Header) : Prop :=
  h.value = h'.value ∧ ∀ name, P name → isSameHeader cm h.name name = isSameHeader cm h'.name name

/-- position by position -/
inductive RespelledList : List Header → List Header → Prop where
  | nil : RespelledList [] []
  | cons {a b : Header} {l₁ l₂ : List Header} : Respelled cm P a b → RespelledList l₁ l₂ → RespelledList (a :: l₁) (b :: l₂)

/-- letter case never matters: `isSameHeader` sees the header's own name only through `toLower` -/
theorem isSameHeader_toLower (n n' name : Bytes) (h : toLower n = toLower n') :
    isSameHeader cm n name = isSameHeader cm n' name := by
  unfold isSameHeader equalFold
  rw [h]

theorem respelled_of_toLower (h h' : Header) (hv : h.value = h'.value) (hn : toLower h.name = toLower h'.name) :
    Respelled cm P h h' :=
  ⟨hv, fun name _ => isSameHeader_toLower cm _ _ name hn⟩

theorem respelled_refl (h : Header) : Respelled cm P h h := ⟨rfl, fun _ _ => rfl⟩

theorem findHeader_respelled (hs hs' : List Header) (H : RespelledList cm P hs hs')
    (name : Bytes) (hn : P name) :
    (findHeader cm hs name).map (·.value) = (findHeader cm hs' name).map (·.value) := by
  unfold findHeader
  induction H with
  | nil => rfl
  | @cons a b l₁ l₂ hr _ ih =>
    simp only [List.find?_cons]
    rw [← hr.2 name hn]
    cases isSameHeader cm a.name name with
    | true => simp [hr.1]
    | false => exact ih

theorem setFirst_respelled (hs hs' : List Header) (H : RespelledList cm P hs hs')
    (name : Bytes) (hn : P name) (v : HVal) :
    RespelledList cm P (setFirst cm hs name v) (setFirst cm hs' name v) := by
  induction H with
  | nil => exact RespelledList.nil
  | @cons a b l₁ l₂ hr hrest ih =>
    simp only [setFirst]
    rw [← hr.2 name hn]
    cases isSameHeader cm a.name name with
    | true => exact RespelledList.cons ⟨rfl, hr.2⟩ hrest
    | false => exact RespelledList.cons hr ih

/-- relation between two getter results: both fail, or the same decoded value and related messages -/
def GetterRel {α : Type} (r r' : Option (α × Message)) : Prop :=
  match r, r' with
  | none, none => True
  | some (f, m1), some (f', m1') => f = f' ∧ RespelledList cm P m1.headers m1'.headers
  | _, _ => False

theorem getFrom_respelled (m m' : Message) (H : RespelledList cm P m.headers m'.headers)
    (hn : P fromName) : GetterRel cm P (getFrom cm m) (getFrom cm m') := by
  have hf := findHeader_respelled cm P _ _ H fromName hn
  unfold getFrom GetterRel
  cases h1 : findHeader cm m.headers fromName with
  | none =>
    cases h2 : findHeader cm m'.headers fromName with
    | none => simp
    | some b => rw [h1, h2] at hf; simp at hf
  | some a =>
    cases h2 : findHeader cm m'.headers fromName with
    | none => rw [h1, h2] at hf; simp at hf
    | some b =>
      rw [h1, h2] at hf
      simp only [Option.map_some, Option.some.injEq] at hf
      simp only
      rw [← hf]
      cases a.value with
      | fromSpec f => exact ⟨rfl, H⟩
      | raw s =>
        simp only
        cases parseFromTo s with
        | none => trivial
        | some f => exact ⟨rfl, setFirst_respelled cm P _ _ H fromName hn _⟩
      | via _ => trivial
      | route _ => trivial
      | recordRoute _ => trivial
      | to _ => trivial
      | cseq _ => trivial

theorem getTo_respelled (m m' : Message) (H : RespelledList cm P m.headers m'.headers)
    (hn : P toName) : GetterRel cm P (getTo cm m) (getTo cm m') := by
  have hf := findHeader_respelled cm P _ _ H toName hn
  unfold getTo GetterRel
  cases h1 : findHeader cm m.headers toName with
  | none =>
    cases h2 : findHeader cm m'.headers toName with
    | none => simp
    | some b => rw [h1, h2] at hf; simp at hf
  | some a =>
    cases h2 : findHeader cm m'.headers toName with
    | none => rw [h1, h2] at hf; simp at hf
    | some b =>
      rw [h1, h2] at hf
      simp only [Option.map_some, Option.some.injEq] at hf
      simp only
      rw [← hf]
      cases a.value with
      | to f => exact ⟨rfl, H⟩
      | raw s =>
        simp only
        cases parseFromTo s with
        | none => trivial
        | some f => exact ⟨rfl, setFirst_respelled cm P _ _ H toName hn _⟩
      | via _ => trivial
      | route _ => trivial
      | recordRoute _ => trivial
      | fromSpec _ => trivial
      | cseq _ => trivial

theorem getRawHeader_respelled (m m' : Message) (H : RespelledList cm P m.headers m'.headers)
    (name : Bytes) (hn : P name) : getRawHeader cm m name = getRawHeader cm m' name := by
  have hf := findHeader_respelled cm P _ _ H name hn
  unfold getRawHeader
  cases h1 : findHeader cm m.headers name with
  | none =>
    cases h2 : findHeader cm m'.headers name with
    | none => rfl
    | some b => rw [h1, h2] at hf; simp at hf
  | some a =>
    cases h2 : findHeader cm m'.headers name with
    | none => rw [h1, h2] at hf; simp at hf
    | some b =>
      rw [h1, h2] at hf
      simp only [Option.map_some, Option.some.injEq] at hf
      obtain ⟨an, av⟩ := a
      obtain ⟨bn, bv⟩ := b
      simp only at hf
      subst hf
      cases av <;> rfl

end

end Lemmas
