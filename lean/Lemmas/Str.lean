/-
Lemmas.Str — evaluating the model's string constants: `str "tcp"` is the list of its UTF-8 bytes.
`ByteArray.toList` is a well-founded loop that the kernel does not unfold, so it is characterised
once and literals are then computed by `decide` on `List.flatMap String.utf8EncodeChar`.
-/
import GoStd.Bytes
open GoStd

namespace Lemmas

theorem byteArray_toList_loop (bs : ByteArray) (i : Nat) (r : List UInt8) :
    ByteArray.toList.loop bs i r = r.reverse ++ bs.data.toList.drop i := by
  fun_induction ByteArray.toList.loop bs i r with
  | case1 i r h ih =>
    rw [ih]
    have h' : i < bs.data.toList.length := by simpa using h
    have h'' : i < bs.data.size := by simpa using h
    rw [List.drop_eq_getElem_cons h']
    have : bs.get! i = bs.data.toList[i] := by
      simp only [ByteArray.get!, Array.getElem_toList]
      exact getElem!_pos bs.data i h''
    simp [this]
  | case2 i r h =>
    have h' : bs.data.toList.length ≤ i := by simpa using h
    simp [List.drop_eq_nil_of_le h']

theorem toList_toByteArray (l : List UInt8) : l.toByteArray.toList = l := by
  simp [ByteArray.toList, byteArray_toList_loop]

theorem str_ofList (cs : List Char) : str (String.ofList cs) = cs.flatMap String.utf8EncodeChar := by
  simp [str, String.toUTF8, List.utf8Encode, toList_toByteArray]

theorem str_tcp : str "tcp" = [116, 99, 112] := by
  have : "tcp" = String.ofList ['t', 'c', 'p'] := rfl
  rw [this, str_ofList]; decide

theorem str_udp : str "udp" = [117, 100, 112] := by
  have : "udp" = String.ofList ['u', 'd', 'p'] := rfl
  rw [this, str_ofList]; decide

theorem str_schemeSep : str "://" = [58, 47, 47] := by
  have : "://" = String.ofList [':', '/', '/'] := rfl
  rw [this, str_ofList]; decide

theorem str_tag : str "tag" = [116, 97, 103] := by
  have : "tag" = String.ofList ['t', 'a', 'g'] := rfl
  rw [this, str_ofList]; decide

theorem str_sip : str "sip" = [115, 105, 112] := by
  have : "sip" = String.ofList ['s', 'i', 'p'] := rfl
  rw [this, str_ofList]; decide

theorem str_from : str "From" = [70, 114, 111, 109] := by
  have : "From" = String.ofList ['F', 'r', 'o', 'm'] := rfl
  rw [this, str_ofList]; decide

theorem str_to : str "To" = [84, 111] := by
  have : "To" = String.ofList ['T', 'o'] := rfl
  rw [this, str_ofList]; decide

theorem str_callId : str "Call-ID" = [67, 97, 108, 108, 45, 73, 68] := by
  have : "Call-ID" = String.ofList ['C', 'a', 'l', 'l', '-', 'I', 'D'] := rfl
  rw [this, str_ofList]; decide

theorem str_via : str "Via" = [86, 105, 97] := by
  have : "Via" = String.ofList ['V', 'i', 'a'] := rfl
  rw [this, str_ofList]; decide

theorem str_cseq : str "CSeq" = [67, 83, 101, 113] := by
  have : "CSeq" = String.ofList ['C', 'S', 'e', 'q'] := rfl
  rw [this, str_ofList]; decide

theorem str_branch : str "branch" = [98, 114, 97, 110, 99, 104] := by
  have : "branch" = String.ofList ['b', 'r', 'a', 'n', 'c', 'h'] := rfl
  rw [this, str_ofList]; decide

theorem str_received : str "received" = [114, 101, 99, 101, 105, 118, 101, 100] := by
  have : "received" = String.ofList ['r', 'e', 'c', 'e', 'i', 'v', 'e', 'd'] := rfl
  rw [this, str_ofList]; decide

theorem str_rport : str "rport" = [114, 112, 111, 114, 116] := by
  have : "rport" = String.ofList ['r', 'p', 'o', 'r', 't'] := rfl
  rw [this, str_ofList]; decide

theorem toLower_tcp : toLower (str "tcp") = str "tcp" := by rw [str_tcp]; decide

end Lemmas
