/-
Lemmas.Transport — the transport table of Proxy.Model (transport.go ClientTransportMgr):
shape of the keys `getFullAddr` builds, and what `GetTransport` reads and writes.
-/
import Lemmas.Assoc
import Lemmas.Str
import Lemmas.Join
open GoStd Sip Proxy

namespace Lemmas

/-! ### keys -/

theorem fullAddr_tcp_keyed (h : Bytes) (p : Int) (tid : Bytes) (hne : tid ≠ []) :
    fullAddr (str "tcp") h p tid = str "tcp" ++ str "://" ++ joinHostPort h p ++ [45] ++ tid := by
  unfold fullAddr
  cases tid with
  | nil => exact absurd rfl hne
  | cons b bs => simp

theorem fullAddr_tcp_shared (h : Bytes) (p : Int) :
    fullAddr (str "tcp") h p [] = str "tcp" ++ str "://" ++ joinHostPort h p := by
  simp [fullAddr]

/-- The un-keyed entry of a host:port (the reconnectable client) differs from every keyed one. -/
theorem fullAddr_shared_ne_keyed (h : Bytes) (p : Int) (tid : Bytes) (hne : tid ≠ []) :
    fullAddr (str "tcp") h p [] ≠ fullAddr (str "tcp") h p tid := by
  rw [fullAddr_tcp_keyed h p tid hne, fullAddr_tcp_shared]
  intro e
  have := congrArg List.length e
  simp only [List.length_append, List.length_cons, List.length_nil] at this
  omega

/-- For one host:port the key determines the transaction id. -/
theorem fullAddr_tcp_tid_injective (h : Bytes) (p : Int) (tid₁ tid₂ : Bytes) (h₁ : tid₁ ≠ []) (h₂ : tid₂ ≠ [])
    (e : fullAddr (str "tcp") h p tid₁ = fullAddr (str "tcp") h p tid₂) : tid₁ = tid₂ := by
  rw [fullAddr_tcp_keyed h p tid₁ h₁, fullAddr_tcp_keyed h p tid₂ h₂] at e
  exact List.append_cancel_left e

/-! ### GetTransport -/

section
variable (cfg : Cfg) (tr tr' : List (Bytes × TransEntry)) (proto h : Bytes) (p : Int) (tid key : Bytes) (e : TransEntry)

/-- The key `GetTransport` answers with is `getFullAddr` of its arguments. -/
theorem getTransport_key (hg : getTransport cfg tr proto h p tid = some (tr', key, e)) :
    key = fullAddr (toLower proto) h p tid := by
  unfold getTransport at hg
  simp only at hg
  split at hg
  · cases hg
  · split at hg
    · simp only [Option.some.injEq, Prod.mk.injEq] at hg; exact hg.2.1.symm
    · split at hg
      · split at hg
        · simp only [Option.some.injEq, Prod.mk.injEq] at hg; exact hg.2.1.symm
        · cases hg
      · split at hg
        · simp only [Option.some.injEq, Prod.mk.injEq] at hg; exact hg.2.1.symm
        · cases hg

/-- An existing entry is returned as it is and the table is left alone. -/
theorem getTransport_hit (hs : cfg.supported.contains (toLower proto) = true)
    (hget : assocGet tr (fullAddr (toLower proto) h p tid) = some e) :
    getTransport cfg tr proto h p tid = some (tr, fullAddr (toLower proto) h p tid, e) := by
  unfold getTransport
  simp only [hs, Bool.not_true, Bool.false_eq_true, ↓reduceIte, hget]

/-- Whatever `GetTransport` answers with is what the table holds under the answered key. -/
theorem getTransport_stored (hg : getTransport cfg tr proto h p tid = some (tr', key, e)) :
    assocGet tr' key = some e := by
  unfold getTransport at hg
  simp only at hg
  split at hg
  · cases hg
  · split at hg
    · rename_i e' he'
      simp only [Option.some.injEq, Prod.mk.injEq] at hg
      obtain ⟨rfl, rfl, rfl⟩ := hg
      exact he'
    · split at hg
      · split at hg
        · simp only [Option.some.injEq, Prod.mk.injEq] at hg
          obtain ⟨rfl, rfl, rfl⟩ := hg
          exact assocGet_assocSet_same _ _ _
        · cases hg
      · split at hg
        · simp only [Option.some.injEq, Prod.mk.injEq] at hg
          obtain ⟨rfl, rfl, rfl⟩ := hg
          exact assocGet_assocSet_same _ _ _
        · cases hg

/-- An entry that exists survives every `GetTransport` unchanged: a call with the same key finds it
and leaves the table alone; a call with another key writes only that other key and, when there is
none yet, the shared un-keyed entry of its host:port (which is therefore not the existing one). -/
theorem getTransport_preserves (k : Bytes) (e₀ : TransEntry) (hk : assocGet tr k = some e₀)
    (hg : getTransport cfg tr proto h p tid = some (tr', key, e)) :
    assocGet tr' k = some e₀ := by
  unfold getTransport at hg
  simp only at hg
  split at hg
  · cases hg
  · split at hg
    · simp only [Option.some.injEq, Prod.mk.injEq] at hg
      obtain ⟨rfl, -, -⟩ := hg
      exact hk
    · rename_i hmiss
      have hne : fullAddr (toLower proto) h p tid ≠ k := by
        intro e; rw [e, hk] at hmiss; cases hmiss
      split at hg
      · split at hg
        · simp only [Option.some.injEq, Prod.mk.injEq] at hg
          obtain ⟨rfl, -, -⟩ := hg
          rw [assocGet_assocSet_ne _ _ _ _ hne]; exact hk
        · cases hg
      · split at hg
        · simp only [Option.some.injEq, Prod.mk.injEq] at hg
          obtain ⟨rfl, -, -⟩ := hg
          rw [assocGet_assocSet_ne _ _ _ _ hne]
          split
          · exact hk
          · rename_i hnone
            have : fullAddr (toLower proto) h p [] ≠ k := by
              intro e; rw [e, hk] at hnone; cases hnone
            rw [assocGet_assocSet_ne _ _ _ _ this]; exact hk
        · cases hg

/-- Frame: a `GetTransport` touches at most its own key and the shared un-keyed key of its host:port. -/
theorem getTransport_frame (k : Bytes)
    (hg : getTransport cfg tr proto h p tid = some (tr', key, e))
    (hne : k ≠ key) (hns : k ≠ fullAddr (toLower proto) h p []) :
    assocGet tr' k = assocGet tr k := by
  have hkey := getTransport_key cfg tr tr' proto h p tid key e hg
  subst hkey
  unfold getTransport at hg
  simp only at hg
  split at hg
  · cases hg
  · split at hg
    · simp only [Option.some.injEq, Prod.mk.injEq] at hg
      obtain ⟨rfl, -, -⟩ := hg
      rfl
    · split at hg
      · split at hg
        · simp only [Option.some.injEq, Prod.mk.injEq] at hg
          obtain ⟨rfl, -, -⟩ := hg
          rw [assocGet_assocSet_ne _ _ _ _ (Ne.symm hne)]
        · cases hg
      · split at hg
        · simp only [Option.some.injEq, Prod.mk.injEq] at hg
          obtain ⟨rfl, -, -⟩ := hg
          rw [assocGet_assocSet_ne _ _ _ _ (Ne.symm hne)]
          split
          · rfl
          · rw [assocGet_assocSet_ne _ _ _ _ (Ne.symm hns)]
        · cases hg

/-- A TCP lookup always answers (the entry is created when it is missing). -/
theorem getTransport_tcp_some (hs : cfg.supported.contains (str "tcp") = true) :
    ∃ tr' e, getTransport cfg tr (str "tcp") h p tid = some (tr', fullAddr (str "tcp") h p tid, e) := by
  have hnu : (str "tcp" == str "udp") = false := by rw [str_tcp, str_udp]; decide
  unfold getTransport
  simp only [toLower_tcp, hs, Bool.not_true, Bool.false_eq_true, ↓reduceIte, hnu, beq_self_eq_true]
  split
  · exact ⟨_, _, rfl⟩
  · exact ⟨_, _, rfl⟩

end

/-! ### the registration step of handleRawMessage -/

/-- the request as `handleRawMessage` sees it when it registers the connection: Via headers decoded
(route learning) and `received`/`rport` stamped -/
def stamped (cfg : Cfg) (st : St) (ev : RawEv) : Message :=
  let m1 : Message :=
    if isRequest ev.msg && !st.backends.contains ev.peerAddr then
      { ev.msg with headers := (forEachViaHeaders cfg.cm ev.msg.headers).1 }
    else ev.msg
  if isRequest ev.msg && ev.receivedSupport then setReceived cfg.cm m1 ev.peerAddr ev.peerPort else m1

/-- the registration step of `handleRawMessage` on the table alone -/
def registerStep (cfg : Cfg) (tr : List (Bytes × TransEntry)) (req : Bool) (conn : Option Nat) (m2 : Message) : List (Bytes × TransEntry) :=
  match req, conn with
  | true, some c =>
    match getNextResponseHop cfg m2 with
    | (none, _) => tr
    | (some hop, m') =>
      match getClientTransaction cfg.cm m' with
      | (none, _) => tr
      | (some tid, _) =>
        match getTransport cfg tr (str "tcp") (regHost cfg hop.host) hop.port tid with
        | none => tr
        | some (tr', key, e) => assocSet tr' key { e with primary := some (.conn c) }
  | _, _ => tr

set_option linter.unusedSimpArgs false in
/-- what `handleRawMessage` does to the transport table -/
theorem handleRawMessage_trans (cfg : Cfg) (st : St) (ev : RawEv) :
    (handleRawMessage cfg st ev).1.trans = registerStep cfg st.trans (isRequest ev.msg) ev.tcpConn (stamped cfg st ev) := by
  unfold handleRawMessage registerStep stamped
  simp only
  cases hreq : isRequest ev.msg <;> cases hc : ev.tcpConn <;> simp only [Bool.false_and, Bool.true_and, Bool.false_eq_true, ↓reduceIte]
  rename_i c
  cases st.backends.contains ev.peerAddr <;> cases ev.receivedSupport <;>
    simp only [Bool.not_true, Bool.not_false, Bool.false_eq_true, ↓reduceIte] <;>
    (generalize getNextResponseHop cfg _ = r
     obtain ⟨_ | hop, m'⟩ := r
     · rfl
     · simp only
       generalize getClientTransaction cfg.cm m' = r2
       obtain ⟨_ | tid, m''⟩ := r2
       · rfl
       · simp only
         generalize getTransport cfg st.trans (str "tcp") _ hop.port tid = r3
         obtain _ | ⟨tr', key, e⟩ := r3 <;> rfl)

end Lemmas
