/-
Lemmas.RelaySample — one concrete configuration, state and a handful of messages, used by the
non-vacuity examples of Props/C01, C03, C04. Definitions only.
-/
import Proxy.Model
import Generated.Tables
open GoStd Sip Proxy

namespace Lemmas.Sample

def cfg : Cfg :=
  { cm := buildCompactMap Generated.compactTable
    finalClasses := Generated.finalClasses
    supported := Generated.supportedProtocols
    names := [str "svc.example"]
    keepNextHopRoute := false
    mustRecordRoute := true
    hosts := []
    routes := [{ protocol := str "udp", dest := str "static.example", host := str "10.0.0.9", port := 5070 }]
    transports0 := some { proto := str "UDP", addr := str "10.0.0.1", port := 5060 } }

def lsn : Listener := { proto := str "UDP", addr := str "10.0.0.1", port := 5060 }

def b1 : Bytes := str "10.0.0.5:5060"
def b2 : Bytes := str "10.0.0.6:5060"

def raw (n v : String) : Header := { name := str n, value := .raw (str v) }

/-- dialog-creating INVITE for the service (no To tag, compact Via name, a foreign header twice) -/
def invite : Message :=
  { start := .request (str "INVITE") (.sip { scheme := str "sip", user := str "bob", host := str "svc.example" }) (str "SIP/2.0")
    headers := [ raw "v" "SIP/2.0/UDP 192.0.2.4:5060;branch=z9hG4bKa",
                 raw "Max-Forwards" "70",
                 raw "X-Foo" "one",
                 raw "f" "<sip:alice@a.example>;tag=1",
                 raw "To" "<sip:bob@svc.example>",
                 raw "Call-ID" "c1@a.example",
                 raw "CSeq" "1 INVITE",
                 raw "X-Foo" "two",
                 raw "Content-Length" "4" ]
    body := [1, 2, 3, 4] }

/-- a later request inside the dialog (both tags) -/
def bye : Message :=
  { start := .request (str "BYE") (.sip { scheme := str "sip", user := str "bob", host := str "svc.example" }) (str "SIP/2.0")
    headers := [ raw "Via" "SIP/2.0/UDP 192.0.2.4:5060;branch=z9hG4bKb",
                 raw "From" "<sip:alice@a.example>;tag=1",
                 raw "To" "<sip:bob@svc.example>;tag=2",
                 raw "Call-ID" "c1@a.example",
                 raw "CSeq" "2 BYE",
                 raw "Content-Length" "0" ]
    body := [] }

/-- the dialog identifier of `bye` -/
def dlg : Bytes := (getDialog cfg.cm bye).1.getD []

/-- a request of another dialog -/
def bye2 : Message :=
  { bye with headers := [ raw "Via" "SIP/2.0/UDP 192.0.2.4:5060;branch=z9hG4bKc",
                          raw "From" "<sip:carol@a.example>;tag=7",
                          raw "To" "<sip:bob@svc.example>;tag=8",
                          raw "Call-ID" "c2@a.example",
                          raw "CSeq" "5 BYE" ] }

/-- a request carrying a Route towards somebody else -/
def routed : Message :=
  { invite with headers := raw "Route" "<sip:10.0.0.7:5080;lr>, <sip:10.0.0.8;lr>" :: invite.headers }

/-- a request whose To host has a static route -/
def static : Message :=
  { start := .request (str "OPTIONS") (.sip { scheme := str "sip", user := str "x", host := str "static.example" }) (str "SIP/2.0")
    headers := [ raw "Via" "SIP/2.0/UDP 192.0.2.4:5060;branch=z9hG4bKd",
                 raw "From" "<sip:alice@a.example>;tag=1",
                 raw "To" "<sip:x@static.example>",
                 raw "Call-ID" "c3@a.example",
                 raw "CSeq" "1 OPTIONS" ]
    body := [] }

/-- a request for nobody: no Route, no static route, not the service -/
def stray : Message :=
  { start := .request (str "OPTIONS") (.sip { scheme := str "sip", user := str "x", host := str "nowhere.example" }) (str "SIP/2.0")
    headers := [ raw "Via" "SIP/2.0/UDP 192.0.2.4:5060;branch=z9hG4bKe",
                 raw "From" "<sip:alice@a.example>;tag=1",
                 raw "To" "<sip:x@nowhere.example>",
                 raw "Call-ID" "c4@a.example",
                 raw "CSeq" "1 OPTIONS" ]
    body := [] }

/-- a response on its way back (own Via on top) -/
def resp : Message :=
  { start := .status (str "SIP/2.0") 200 (str "OK")
    headers := [ raw "Via" "SIP/2.0/UDP 10.0.0.1:5060;branch=z9hG4bKp",
                 raw "Via" "SIP/2.0/UDP 192.0.2.4:5060;branch=z9hG4bKa;received=192.0.2.4",
                 raw "From" "<sip:alice@a.example>;tag=1",
                 raw "To" "<sip:bob@svc.example>;tag=2",
                 raw "Call-ID" "c1@a.example",
                 raw "CSeq" "1 INVITE",
                 raw "Contact" "<sip:bob@10.0.0.5>" ]
    body := [9, 9] }

/-- two backends in the rotation; the dialog of `bye` is pinned to the first -/
def st : St :=
  { backends := [b1, b2]
    rr := { index := 0, backends := [b1, b2], keys := [b1, b2] }
    pins := [{ key := dlg, backend := .member b1, expires := 0 }] }

def ev (m : Message) : RawEv :=
  { peerAddr := str "192.0.2.4", peerPort := 5060, frm := lsn, receivedSupport := true, tcpConn := none,
    msg := m, rxMatch := false, branch := str "z9hG4bKown" }

end Lemmas.Sample
