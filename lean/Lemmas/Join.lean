/-
Lemmas.Join — a separator that occurs in no part makes concatenation with that separator injective.
-/
import Lemmas.Bytes
open GoStd

namespace Lemmas

/-- `strings.Join` with a one-byte separator is injective on part lists free of that byte. -/
theorem join_injective (c : UInt8) (ps qs : List Bytes) (hp : ps ≠ []) (hq : qs ≠ [])
    (hps : ∀ p ∈ ps, c ∉ p) (hqs : ∀ q ∈ qs, c ∉ q) (h : join [c] ps = join [c] qs) : ps = qs := by
  rw [← split_join c ps hp hps, ← split_join c qs hq hqs, h]

/-- `m ++ c ++ b` determines `m` and `b` when `m` is free of `c`. -/
theorem append_sep_injective (c : UInt8) (m₁ m₂ b₁ b₂ : Bytes) (h₁ : c ∉ m₁) (h₂ : c ∉ m₂)
    (h : m₁ ++ [c] ++ b₁ = m₂ ++ [c] ++ b₂) : m₁ = m₂ ∧ b₁ = b₂ := by
  have e₁ := cut_append_of_not_mem c m₁ b₁ h₁
  have e₂ := cut_append_of_not_mem c m₂ b₂ h₂
  simp only [List.append_assoc, List.singleton_append] at h
  rw [h, e₂] at e₁
  simpa [eq_comm] using e₁

theorem append_cons_injective (c : UInt8) (m₁ m₂ b₁ b₂ : Bytes) (h₁ : c ∉ m₁) (h₂ : c ∉ m₂)
    (h : m₁ ++ c :: b₁ = m₂ ++ c :: b₂) : m₁ = m₂ ∧ b₁ = b₂ :=
  append_sep_injective c m₁ m₂ b₁ b₂ h₁ h₂ (by simpa using h)

/-- an optional `c`-separated suffix after a `c`-free part can be read back -/
theorem opt_suffix_injective (c : UInt8) (a a' b b' : Bytes) (ha : c ∉ a) (ha' : c ∉ a')
    (P P' : Prop) [Decidable P] [Decidable P']
    (h : (if P then a ++ c :: b else a) = (if P' then a' ++ c :: b' else a')) :
    a = a' ∧ (P ↔ P') ∧ (P → b = b') := by
  by_cases hP : P <;> by_cases hP' : P' <;> simp only [hP, hP', ↓reduceIte] at h
  · have e₁ := cut_append_of_not_mem c a b ha
    have e₂ := cut_append_of_not_mem c a' b' ha'
    rw [h, e₂] at e₁
    simp only [Option.some.injEq, Prod.mk.injEq] at e₁
    exact ⟨e₁.1.symm, by simp [hP, hP'], fun _ => e₁.2.symm⟩
  · exact absurd (h ▸ (by simp : c ∈ a ++ c :: b)) ha'
  · exact absurd (h ▸ (by simp : c ∈ a' ++ c :: b')) ha
  · exact ⟨h, by simp [hP, hP'], fun x => absurd x hP⟩

/-- an optional `c`-terminated prefix in front of a `c`-free part can be read back -/
theorem opt_prefix_injective (c : UInt8) (x x' y y' : Bytes) (hx : c ∉ x) (hx' : c ∉ x') (hy : c ∉ y) (hy' : c ∉ y')
    (Q Q' : Prop) [Decidable Q] [Decidable Q']
    (h : (if Q then x ++ c :: y else y) = (if Q' then x' ++ c :: y' else y')) :
    (Q ↔ Q') ∧ y = y' ∧ (Q → x = x') := by
  by_cases hQ : Q <;> by_cases hQ' : Q' <;> simp only [hQ, hQ', ↓reduceIte] at h
  · have e₁ := cut_append_of_not_mem c x y hx
    have e₂ := cut_append_of_not_mem c x' y' hx'
    rw [h, e₂] at e₁
    simp only [Option.some.injEq, Prod.mk.injEq] at e₁
    exact ⟨by simp [hQ, hQ'], e₁.2.symm, fun _ => e₁.1.symm⟩
  · exact absurd (h ▸ (by simp : c ∈ x ++ c :: y)) hy'
  · exact absurd (h ▸ (by simp : c ∈ x' ++ c :: y')) hy
  · exact ⟨by simp [hQ, hQ'], h, fun q => absurd q hQ⟩

end Lemmas
