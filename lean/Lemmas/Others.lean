/-
Lemmas.Others — what the proxy does NOT own: the header fields outside the Via / Route /
Record-Route classes, as the list of (name, printed value) pairs in message order.
Every header-list operation of `Sip/Message.lean` preserves that list (and never touches the
start line or the body). Core Lean only.

The relation `Rel cm m m'` bundles "same start line, same body, same `others`" with a fourth
component (`RawSub`: every still-undecoded header of `m'` is a header of `m`) that lets the
round-trip hypothesis `RoundTrips` travel along a chain of operations.
-/
import Sip.Message
import Lemmas.Literal
open GoStd Sip

namespace Lemmas

section
variable (cm : List (Bytes × Bytes))

/-- header-name classes the proxy manages -/
def owned (n : Bytes) : Bool :=
  isSameHeader cm n viaName || isSameHeader cm n routeName || isSameHeader cm n recordRouteName

/-- the header fields the proxy does not own: name and printed value, in order, with multiplicity -/
def others (hs : List Header) : List (Bytes × Bytes) :=
  (hs.filter (fun h => !owned cm h.name)).map (fun h => (h.name, h.value.encode))

theorem isSameHeader_refl (n : Bytes) : isSameHeader cm n n = true := by
  simp [isSameHeader, equalFold]

theorem owned_of_via {n : Bytes} (h : isSameHeader cm n viaName = true) : owned cm n = true := by
  simp [owned, h]

theorem owned_of_route {n : Bytes} (h : isSameHeader cm n routeName = true) : owned cm n = true := by
  simp [owned, h]

theorem owned_of_recordRoute {n : Bytes} (h : isSameHeader cm n recordRouteName = true) : owned cm n = true := by
  simp [owned, h]

theorem owned_viaName : owned cm viaName = true := owned_of_via cm (isSameHeader_refl cm _)
theorem owned_routeName : owned cm routeName = true := owned_of_route cm (isSameHeader_refl cm _)
theorem owned_recordRouteName : owned cm recordRouteName = true :=
  owned_of_recordRoute cm (isSameHeader_refl cm _)

/-! ### `others` on list constructors -/

theorem others_nil : others cm [] = [] := rfl

theorem others_cons (h : Header) (hs : List Header) :
    others cm (h :: hs) = if owned cm h.name then others cm hs else (h.name, h.value.encode) :: others cm hs := by
  unfold others
  by_cases ho : owned cm h.name = true
  · simp [ho]
  · simp [ho]

theorem others_append (a b : List Header) : others cm (a ++ b) = others cm a ++ others cm b := by
  simp [others, List.filter_append]

/-! ### findHeader facts -/

theorem findHeader_some {hs : List Header} {n : Bytes} {h : Header} (hf : findHeader cm hs n = some h) :
    h ∈ hs ∧ isSameHeader cm h.name n = true := by
  unfold findHeader at hf
  exact ⟨List.mem_of_find?_eq_some hf, by simpa using List.find?_some hf⟩

theorem findHeader_cons_pos {h : Header} {hs : List Header} {n : Bytes}
    (hc : isSameHeader cm h.name n = true) : findHeader cm (h :: hs) n = some h := by
  simp [findHeader, hc]

theorem findHeader_cons_neg {h : Header} {hs : List Header} {n : Bytes}
    (hc : ¬ isSameHeader cm h.name n = true) : findHeader cm (h :: hs) n = findHeader cm hs n := by
  simp [findHeader, hc]

/-! ### setFirst -/

/-- The general law: replacing the value of the first header of class `n` keeps `others` as soon
as that header is owned, or the new value prints like the old one. -/
theorem others_setFirst (hs : List Header) (n : Bytes) (v : HVal)
    (H : ∀ h, findHeader cm hs n = some h → owned cm h.name = true ∨ v.encode = h.value.encode) :
    others cm (setFirst cm hs n v) = others cm hs := by
  induction hs with
  | nil => rfl
  | cons h hs ih =>
    by_cases hc : isSameHeader cm h.name n = true
    · simp only [setFirst, hc, ↓reduceIte, others_cons]
      rcases H h (findHeader_cons_pos cm hc) with ho | he
      · simp [ho]
      · simp [he]
    · simp only [setFirst, hc, Bool.false_eq_true, ↓reduceIte, others_cons]
      rw [ih (fun h' hf => H h' (by rw [findHeader_cons_neg cm hc]; exact hf))]

/-- `setFirst` on an owned class (Via, Route, Record-Route): any value. -/
theorem others_setFirst_owned (hs : List Header) (n : Bytes) (v : HVal)
    (Hn : ∀ n', isSameHeader cm n' n = true → owned cm n' = true) :
    others cm (setFirst cm hs n v) = others cm hs :=
  others_setFirst cm hs n v (fun _ hf => Or.inl (Hn _ (findHeader_some cm hf).2))

theorem others_setFirst_via (hs : List Header) (v : HVal) :
    others cm (setFirst cm hs viaName v) = others cm hs :=
  others_setFirst_owned cm hs viaName v (fun _ => owned_of_via cm)

theorem others_setFirst_route (hs : List Header) (v : HVal) :
    others cm (setFirst cm hs routeName v) = others cm hs :=
  others_setFirst_owned cm hs routeName v (fun _ => owned_of_route cm)

/-- `setFirst` on ANY class (in particular From, To, CSeq) when the new value prints like the value
it replaces. -/
theorem others_setFirst_encode (hs : List Header) (n : Bytes) (v : HVal) (h : Header)
    (hf : findHeader cm hs n = some h) (he : v.encode = h.value.encode) :
    others cm (setFirst cm hs n v) = others cm hs :=
  others_setFirst cm hs n v (fun h' hf' => by rw [hf] at hf'; cases hf'; exact Or.inr he)

theorem mem_setFirst {hs : List Header} {n : Bytes} {v : HVal} {x : Header}
    (hx : x ∈ setFirst cm hs n v) : x ∈ hs ∨ x.value = v := by
  induction hs with
  | nil => simp [setFirst] at hx
  | cons h hs ih =>
    by_cases hc : isSameHeader cm h.name n = true
    · simp only [setFirst, hc, ↓reduceIte, List.mem_cons] at hx
      rcases hx with rfl | hx
      · exact Or.inr rfl
      · exact Or.inl (List.mem_cons_of_mem _ hx)
    · simp only [setFirst, hc, Bool.false_eq_true, ↓reduceIte, List.mem_cons] at hx
      rcases hx with rfl | hx
      · exact Or.inl (List.mem_cons_self ..)
      · rcases ih hx with h1 | h1
        · exact Or.inl (List.mem_cons_of_mem _ h1)
        · exact Or.inr h1

/-! ### removeHeader -/

theorem others_removeHeader (hs : List Header) (n : Bytes)
    (Hn : ∀ n', isSameHeader cm n' n = true → owned cm n' = true) :
    others cm (removeHeader cm hs n) = others cm hs := by
  induction hs with
  | nil => rfl
  | cons h hs ih =>
    by_cases hc : isSameHeader cm h.name n = true
    · simp [removeHeader, hc, others_cons, Hn _ hc]
    · simp [removeHeader, hc, others_cons, ih]

theorem others_removeHeader_via (hs : List Header) :
    others cm (removeHeader cm hs viaName) = others cm hs :=
  others_removeHeader cm hs viaName (fun _ => owned_of_via cm)

theorem others_removeHeader_route (hs : List Header) :
    others cm (removeHeader cm hs routeName) = others cm hs :=
  others_removeHeader cm hs routeName (fun _ => owned_of_route cm)

theorem mem_removeHeader {hs : List Header} {n : Bytes} {x : Header}
    (hx : x ∈ removeHeader cm hs n) : x ∈ hs := by
  induction hs with
  | nil => simp [removeHeader] at hx
  | cons h hs ih =>
    by_cases hc : isSameHeader cm h.name n = true
    · simp only [removeHeader, hc, ↓reduceIte] at hx
      exact List.mem_cons_of_mem _ hx
    · simp only [removeHeader, hc, Bool.false_eq_true, ↓reduceIte, List.mem_cons] at hx
      rcases hx with rfl | hx
      · exact List.mem_cons_self ..
      · exact List.mem_cons_of_mem _ (ih hx)

/-! ### insertAt -/

theorem others_insertAt (hs : List Header) (pos : Nat) (h : Header) (ho : owned cm h.name = true) :
    others cm (insertAt hs pos h) = others cm hs := by
  unfold insertAt
  rw [others_append, others_cons]
  simp only [ho, ↓reduceIte]
  rw [← others_append, List.take_append_drop]

theorem mem_insertAt {α : Type} {l : List α} {pos : Nat} {h x : α} (hx : x ∈ insertAt l pos h) :
    x ∈ l ∨ x = h := by
  unfold insertAt at hx
  simp only [List.mem_append, List.mem_cons] at hx
  rcases hx with h1 | rfl | h1
  · exact Or.inl (List.mem_of_mem_take h1)
  · exact Or.inr rfl
  · exact Or.inl (List.mem_of_mem_drop h1)

/-! ### forEachViaHeaders -/

theorem others_forEachVia (hs : List Header) : others cm (forEachViaHeaders cm hs).1 = others cm hs := by
  induction hs with
  | nil => rfl
  | cons h hs ih =>
    simp only [forEachViaHeaders]
    by_cases hc : isSameHeader cm h.name viaName = true
    · have ho := owned_of_via cm hc
      simp only [hc, Bool.not_true, Bool.false_eq_true, ↓reduceIte]
      split
      · simp [others_cons, ho, ih]
      · split
        · simp [others_cons, ho, ih]
        · simp [others_cons, ho, ih]
      · simp [others_cons, ho, ih]
    · simp [hc, others_cons, ih]

/-! ### undecoded headers only ever disappear -/

def isRaw : HVal → Bool
  | .raw _ => true
  | _ => false

/-- every still-undecoded header of `hs'` is a header of `hs` -/
def RawSub (hs' hs : List Header) : Prop := ∀ h ∈ hs', isRaw h.value = true → h ∈ hs

theorem RawSub.refl (hs : List Header) : RawSub hs hs := fun _ h _ => h

theorem RawSub.trans {a b c : List Header} (h1 : RawSub b a) (h2 : RawSub c b) : RawSub c a :=
  fun h hm hr => h1 h (h2 h hm hr) hr

theorem rawSub_setFirst (hs : List Header) (n : Bytes) (v : HVal) (hv : isRaw v = false) :
    RawSub (setFirst cm hs n v) hs := by
  intro x hx hr
  rcases mem_setFirst cm hx with h1 | h1
  · exact h1
  · rw [h1, hv] at hr; cases hr

theorem rawSub_removeHeader (hs : List Header) (n : Bytes) : RawSub (removeHeader cm hs n) hs :=
  fun _ hx _ => mem_removeHeader cm hx

theorem rawSub_insertAt (hs : List Header) (pos : Nat) (h : Header) (hv : isRaw h.value = false) :
    RawSub (insertAt hs pos h) hs := by
  intro x hx hr
  rcases mem_insertAt hx with h1 | rfl
  · exact h1
  · rw [hv] at hr; cases hr

theorem rawSub_forEachVia (hs : List Header) : RawSub (forEachViaHeaders cm hs).1 hs := by
  induction hs with
  | nil => exact RawSub.refl _
  | cons h hs ih =>
    have keep : RawSub (h :: (forEachViaHeaders cm hs).1) (h :: hs) := by
      intro x hx hr
      rcases List.mem_cons.mp hx with rfl | hx
      · exact List.mem_cons_self ..
      · exact List.mem_cons_of_mem _ (ih x hx hr)
    simp only [forEachViaHeaders]
    split
    · exact keep
    · split
      · exact keep
      · split
        · exact keep
        · intro x hx hr
          rcases List.mem_cons.mp hx with rfl | hx
          · cases hr
          · exact List.mem_cons_of_mem _ (ih x hx hr)
      · exact keep

/-! ### the round-trip hypothesis -/

/-- `RoundTrips`: every still-undecoded value of the From / To class re-encodes, once decoded by
`parseFromTo`, to the string found; same for the CSeq class and `parseCSeq`. (Restricted to the
strings occurring in the message; nothing is asked of strings that do not parse.) -/
def RoundTrips (hs : List Header) : Prop :=
  ∀ h ∈ hs, ∀ s, h.value = .raw s →
    ((isSameHeader cm h.name fromName = true ∨ isSameHeader cm h.name toName = true) →
        ∀ f, parseFromTo s = some f → f.encode = s) ∧
    (isSameHeader cm h.name cseqName = true → ∀ c, parseCSeq s = some c → c.encode = s)

theorem RoundTrips.mono {hs hs' : List Header} (hr : RoundTrips cm hs) (hsub : RawSub hs' hs) :
    RoundTrips cm hs' := by
  intro h hm s hs
  exact hr h (hsub h hm (by rw [hs]; rfl)) s hs

/-- Since From, To and CSeq values keep the text they were decoded from and print it (Lemmas.Literal),
the round-trip hypothesis holds for EVERY header list. -/
theorem roundTrips_all (hs : List Header) : RoundTrips cm hs :=
  fun _ _ _ _ => ⟨fun _ _ hf => parseFromTo_encode hf, fun _ _ hc => parseCSeq_encode hc⟩

/-! ### the relation between a message and what an operation makes of it -/

/-- `m'` has the start line, the body and the not-owned headers of `m`, and decoded nothing back. -/
structure Rel (m m' : Message) : Prop where
  start : m'.start = m.start
  body : m'.body = m.body
  others : others cm m'.headers = others cm m.headers
  raws : RawSub m'.headers m.headers

theorem Rel.refl (m : Message) : Rel cm m m := ⟨rfl, rfl, rfl, RawSub.refl _⟩

theorem Rel.trans {a b c : Message} (h1 : Rel cm a b) (h2 : Rel cm b c) : Rel cm a c :=
  ⟨h2.start.trans h1.start, h2.body.trans h1.body, h2.others.trans h1.others, h1.raws.trans h2.raws⟩

theorem Rel.roundTrips {m m' : Message} (h : Rel cm m m') (hr : RoundTrips cm m.headers) :
    RoundTrips cm m'.headers := hr.mono cm h.raws

theorem Rel.of_eq {m m' : Message} (h : m' = m) : Rel cm m m' := h ▸ Rel.refl cm m

theorem rel_setFirst_owned (m : Message) (n : Bytes) (v : HVal)
    (Hn : ∀ n', isSameHeader cm n' n = true → owned cm n' = true) (hv : isRaw v = false) :
    Rel cm m { m with headers := setFirst cm m.headers n v } :=
  ⟨rfl, rfl, others_setFirst_owned cm _ n v Hn, rawSub_setFirst cm _ n v hv⟩

theorem rel_setFirst_encode (m : Message) (n : Bytes) (v : HVal) (h : Header)
    (hf : findHeader cm m.headers n = some h) (he : v.encode = h.value.encode) (hv : isRaw v = false) :
    Rel cm m { m with headers := setFirst cm m.headers n v } :=
  ⟨rfl, rfl, others_setFirst_encode cm _ n v h hf he, rawSub_setFirst cm _ n v hv⟩

theorem rel_removeHeader (m : Message) (n : Bytes)
    (Hn : ∀ n', isSameHeader cm n' n = true → owned cm n' = true) :
    Rel cm m { m with headers := removeHeader cm m.headers n } :=
  ⟨rfl, rfl, others_removeHeader cm _ n Hn, rawSub_removeHeader cm _ n⟩

theorem rel_insertAt (m : Message) (pos : Nat) (h : Header) (ho : owned cm h.name = true)
    (hv : isRaw h.value = false) :
    Rel cm m { m with headers := insertAt m.headers pos h } :=
  ⟨rfl, rfl, others_insertAt cm _ pos h ho, rawSub_insertAt _ pos h hv⟩

/-! ### typed getters -/

theorem getVia_rel {m m' : Message} {v : List ViaParam} (h : getVia cm m = some (v, m')) : Rel cm m m' := by
  unfold getVia at h
  split at h
  · cases h
  · split at h
    · cases h; exact Rel.refl cm m
    · split at h
      · cases h
      · cases h; exact rel_setFirst_owned cm m viaName _ (fun _ => owned_of_via cm) rfl
    · cases h

theorem getRoute_rel {m m' : Message} {r : List RouteParam} (h : getRoute cm m = some (r, m')) : Rel cm m m' := by
  unfold getRoute at h
  split at h
  · cases h
  · split at h
    · cases h; exact Rel.refl cm m
    · split at h
      · cases h
      · cases h; exact rel_setFirst_owned cm m routeName _ (fun _ => owned_of_route cm) rfl
    · cases h

theorem getFrom_rel {m m' : Message} {f : FromTo} (hr : RoundTrips cm m.headers)
    (h : getFrom cm m = some (f, m')) : Rel cm m m' := by
  unfold getFrom at h
  split at h
  · cases h
  · rename_i hd hf
    split at h
    · cases h; exact Rel.refl cm m
    · rename_i s hs
      split at h
      · cases h
      · rename_i f' hp
        cases h
        obtain ⟨hm, hc⟩ := findHeader_some cm hf
        refine rel_setFirst_encode cm m fromName _ hd hf ?_ rfl
        rw [hs]
        exact ((hr hd hm s hs).1 (Or.inl hc)) _ hp
    · cases h

theorem getTo_rel {m m' : Message} {f : FromTo} (hr : RoundTrips cm m.headers)
    (h : getTo cm m = some (f, m')) : Rel cm m m' := by
  unfold getTo at h
  split at h
  · cases h
  · rename_i hd hf
    split at h
    · cases h; exact Rel.refl cm m
    · rename_i s hs
      split at h
      · cases h
      · rename_i f' hp
        cases h
        obtain ⟨hm, hc⟩ := findHeader_some cm hf
        refine rel_setFirst_encode cm m toName _ hd hf ?_ rfl
        rw [hs]
        exact ((hr hd hm s hs).1 (Or.inr hc)) _ hp
    · cases h

theorem getCSeq_rel {m m' : Message} {c : CSeq} (hr : RoundTrips cm m.headers)
    (h : getCSeq cm m = some (c, m')) : Rel cm m m' := by
  unfold getCSeq at h
  split at h
  · cases h
  · rename_i hd hf
    split at h
    · cases h; exact Rel.refl cm m
    · rename_i s hs
      split at h
      · cases h
      · rename_i c' hp
        cases h
        obtain ⟨hm, hc⟩ := findHeader_some cm hf
        refine rel_setFirst_encode cm m cseqName _ hd hf ?_ rfl
        rw [hs]
        exact ((hr hd hm s hs).2 hc) _ hp
    · cases h

theorem getMethod_rel {m m' : Message} {meth : Bytes} (hr : RoundTrips cm m.headers)
    (h : getMethod cm m = some (meth, m')) : Rel cm m m' := by
  unfold getMethod at h
  split at h
  · cases h; exact Rel.refl cm m
  · split at h
    · cases h
    · rename_i c m1 hc
      cases h
      exact getCSeq_rel cm hr hc

/-! ### Via / Route surgery -/

theorem popVia_rel {m m' : Message} (h : popVia cm m = some m') : Rel cm m m' := by
  unfold popVia at h
  split at h
  · cases h
  · rename_i v m1 hv
    have h1 := getVia_rel cm hv
    split at h
    · cases h
      exact h1.trans cm (rel_setFirst_owned cm m1 viaName _ (fun _ => owned_of_via cm) rfl)
    · cases h
      exact h1.trans cm (rel_removeHeader cm m1 viaName (fun _ => owned_of_via cm))

theorem popRoute_rel {m m' : Message} (h : popRoute cm m = some m') : Rel cm m m' := by
  unfold popRoute at h
  split at h
  · cases h
  · rename_i v m1 hv
    have h1 := getRoute_rel cm hv
    split at h
    · cases h
      exact h1.trans cm (rel_setFirst_owned cm m1 routeName _ (fun _ => owned_of_route cm) rfl)
    · cases h
      exact h1.trans cm (rel_removeHeader cm m1 routeName (fun _ => owned_of_route cm))

theorem popVia_getD_rel (m : Message) : Rel cm m ((popVia cm m).getD m) := by
  cases h : popVia cm m with
  | none => exact Rel.refl cm m
  | some m' => exact popVia_rel cm h

theorem popRoute_getD_rel (m : Message) : Rel cm m ((popRoute cm m).getD m) := by
  cases h : popRoute cm m with
  | none => exact Rel.refl cm m
  | some m' => exact popRoute_rel cm h

theorem addVia_rel (m : Message) (vp : ViaParam) : Rel cm m (addVia cm m vp) :=
  rel_insertAt cm m _ _ (owned_viaName cm) rfl

theorem addRecordRoute_rel (m : Message) (rr : RouteParam) : Rel cm m (addRecordRoute cm m rr) :=
  rel_insertAt cm m _ _ (owned_recordRouteName cm) rfl

theorem setReceived_rel (m : Message) (peerAddr : Bytes) (peerPort : Int) :
    Rel cm m (setReceived cm m peerAddr peerPort) := by
  unfold setReceived
  split
  · exact Rel.refl cm m
  · rename_i v m1 hv
    have h1 := getVia_rel cm hv
    split
    · exact h1
    · exact h1.trans cm (rel_setFirst_owned cm m1 viaName _ (fun _ => owned_of_via cm) rfl)

theorem forEachVia_rel (m : Message) :
    Rel cm m { m with headers := (forEachViaHeaders cm m.headers).1 } :=
  ⟨rfl, rfl, others_forEachVia cm _, rawSub_forEachVia cm _⟩

/-! ### identifiers -/

theorem getDialog_rel (m : Message) (hr : RoundTrips cm m.headers) : Rel cm m (getDialog cm m).2 := by
  unfold getDialog
  split
  · exact Rel.refl cm m
  · split
    · exact Rel.refl cm m
    · rename_i f m1 hf
      have h1 := getFrom_rel cm hr hf
      split
      · exact h1
      · split
        · exact h1
        · rename_i t m2 ht
          have h2 := h1.trans cm (getTo_rel cm (h1.roundTrips cm hr) ht)
          split
          · exact h2
          · split
            · exact h2
            · exact h2

theorem getClientTransaction_rel (m : Message) (hr : RoundTrips cm m.headers) :
    Rel cm m (getClientTransaction cm m).2 := by
  unfold getClientTransaction
  split
  · exact Rel.refl cm m
  · rename_i c m1 hc
    have h1 := getCSeq_rel cm hr hc
    split
    · exact h1
    · rename_i v m2 hv
      have h2 := h1.trans cm (getVia_rel cm hv)
      split
      · exact h2
      · split
        · exact h2
        · exact h2

/-! ### the same, spelled out per operation (start line, body, `others`) -/

theorem others_getVia {m m' : Message} {v : List ViaParam} (h : getVia cm m = some (v, m')) :
    m'.start = m.start ∧ m'.body = m.body ∧ others cm m'.headers = others cm m.headers :=
  let r := getVia_rel cm h; ⟨r.start, r.body, r.others⟩

theorem others_getRoute {m m' : Message} {r : List RouteParam} (h : getRoute cm m = some (r, m')) :
    m'.start = m.start ∧ m'.body = m.body ∧ others cm m'.headers = others cm m.headers :=
  let r := getRoute_rel cm h; ⟨r.start, r.body, r.others⟩

theorem others_getFrom {m m' : Message} {f : FromTo} (hr : RoundTrips cm m.headers)
    (h : getFrom cm m = some (f, m')) :
    m'.start = m.start ∧ m'.body = m.body ∧ others cm m'.headers = others cm m.headers :=
  let r := getFrom_rel cm hr h; ⟨r.start, r.body, r.others⟩

theorem others_getTo {m m' : Message} {f : FromTo} (hr : RoundTrips cm m.headers)
    (h : getTo cm m = some (f, m')) :
    m'.start = m.start ∧ m'.body = m.body ∧ others cm m'.headers = others cm m.headers :=
  let r := getTo_rel cm hr h; ⟨r.start, r.body, r.others⟩

theorem others_getCSeq {m m' : Message} {c : CSeq} (hr : RoundTrips cm m.headers)
    (h : getCSeq cm m = some (c, m')) :
    m'.start = m.start ∧ m'.body = m.body ∧ others cm m'.headers = others cm m.headers :=
  let r := getCSeq_rel cm hr h; ⟨r.start, r.body, r.others⟩

theorem others_popVia {m m' : Message} (h : popVia cm m = some m') :
    m'.start = m.start ∧ m'.body = m.body ∧ others cm m'.headers = others cm m.headers :=
  let r := popVia_rel cm h; ⟨r.start, r.body, r.others⟩

theorem others_popRoute {m m' : Message} (h : popRoute cm m = some m') :
    m'.start = m.start ∧ m'.body = m.body ∧ others cm m'.headers = others cm m.headers :=
  let r := popRoute_rel cm h; ⟨r.start, r.body, r.others⟩

theorem others_addVia (m : Message) (vp : ViaParam) :
    (addVia cm m vp).start = m.start ∧ (addVia cm m vp).body = m.body ∧
    others cm (addVia cm m vp).headers = others cm m.headers :=
  let r := addVia_rel cm m vp; ⟨r.start, r.body, r.others⟩

theorem others_addRecordRoute (m : Message) (rr : RouteParam) :
    (addRecordRoute cm m rr).start = m.start ∧ (addRecordRoute cm m rr).body = m.body ∧
    others cm (addRecordRoute cm m rr).headers = others cm m.headers :=
  let r := addRecordRoute_rel cm m rr; ⟨r.start, r.body, r.others⟩

theorem others_setReceived (m : Message) (peerAddr : Bytes) (peerPort : Int) :
    (setReceived cm m peerAddr peerPort).start = m.start ∧ (setReceived cm m peerAddr peerPort).body = m.body ∧
    others cm (setReceived cm m peerAddr peerPort).headers = others cm m.headers :=
  let r := setReceived_rel cm m peerAddr peerPort; ⟨r.start, r.body, r.others⟩

end

/-! ### a decidable sufficient condition for `RoundTrips` -/

def roundTripsB (cm : List (Bytes × Bytes)) (hs : List Header) : Bool :=
  hs.all fun h =>
    match h.value with
    | .raw s =>
      ((!(isSameHeader cm h.name fromName || isSameHeader cm h.name toName)) ||
        (match parseFromTo s with
         | some f => f.encode == s
         | none => true)) &&
      ((!isSameHeader cm h.name cseqName) ||
        (match parseCSeq s with
         | some c => c.encode == s
         | none => true))
    | _ => true

theorem roundTrips_of_check (cm : List (Bytes × Bytes)) (hs : List Header) (h : roundTripsB cm hs = true) :
    RoundTrips cm hs := by
  intro hd hm s hs'
  have := List.all_eq_true.mp h hd hm
  simp only [hs', Bool.and_eq_true, Bool.or_eq_true, Bool.not_eq_true'] at this
  obtain ⟨h1, h2⟩ := this
  refine ⟨?_, ?_⟩
  · intro hc f hp
    rcases h1 with h1 | h1
    · rcases hc with hc | hc <;> simp [hc] at h1
    · rw [hp] at h1; simpa using h1
  · intro hc c hp
    rcases h2 with h2 | h2
    · rw [hc] at h2; cases h2
    · rw [hp] at h2; simpa using h2


/-! ### non-vacuity -/

private def exHs : List Header :=
  [ { name := str "v", value := .raw (str "SIP/2.0/UDP 192.0.2.4:5060;branch=z9hG4bKa") },
    { name := str "X-Foo", value := .raw (str "one") },
    { name := str "From", value := .raw (str "<sip:alice@a.example>;tag=1") },
    { name := str "CSeq", value := .raw (str "7 INVITE") },
    { name := str "X-Foo", value := .raw (str "two") } ]

private def exM : Message := { start := .status (str "SIP/2.0") 200 (str "OK"), headers := exHs, body := [1] }

private def exCm : List (Bytes × Bytes) := buildCompactMap [(str "Via", str "v"), (str "From", str "f")]

/-- a message meeting `RoundTrips` whose From and CSeq do get decoded (value replaced in place) -/
example : RoundTrips exCm exM.headers ∧ (getFrom exCm exM).isSome = true ∧ (getCSeq exCm exM).isSome = true ∧
    (getFrom exCm exM).map (·.2) ≠ some exM :=
  ⟨roundTrips_of_check _ _ (by decide +kernel), by decide +kernel, by decide +kernel, by decide +kernel⟩

/-- the hypotheses of `others_setFirst_encode` / `others_setFirst_owned` / `others_insertAt` on it -/
example : (∃ h, findHeader exCm exHs cseqName = some h ∧
      (HVal.cseq { seq := 7, method := str "INVITE" }).encode = h.value.encode) ∧
    (getVia exCm exM).isSome = true ∧ (popVia exCm exM).isSome = true ∧
    others exCm exHs = [(str "X-Foo", str "one"), (str "From", str "<sip:alice@a.example>;tag=1"),
                        (str "CSeq", str "7 INVITE"), (str "X-Foo", str "two")] :=
  ⟨⟨{ name := str "CSeq", value := .raw (str "7 INVITE") }, by decide +kernel, by decide +kernel⟩,
   by decide +kernel, by decide +kernel, by decide +kernel⟩

end Lemmas
