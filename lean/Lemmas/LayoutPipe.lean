/-
Lemmas.LayoutPipe — re-layout lifted through `Proxy.Model` up to `step`.

`lview cm m`: everything the pipeline can read of a message, with the layout of the Via, Route and
Record-Route entries over header lines abstracted away: start line, body, the three stacks, presence of
a Record-Route header, the decoded From / To / CSeq, the raw Call-ID / Expires / Subscription-State, and
ALL headers outside the three routing classes (`restOf`: names, values, order).
`LR cm m m'`: both messages are well formed (`ViaOK`, `RouteOK`: every Via / Route header decodes) and have
the same `lview`. `pipeRel_layout`: `LR` is respected by all primitive header operations the way
`Lemmas.PipeRel` requires, PROVIDED the classes of the pipeline's keys are pairwise disjoint
(`AllDisj`, from `SaneFor`). Hence (`step_layout`): two events whose messages are `LR`-related yield equal
states, equal destinations, and payloads that are serialisations of `LR`-related messages.
-/
import Lemmas.PipeRel
import Lemmas.Spell
import Lemmas.Layout
open GoStd Sip Proxy

namespace Lemmas

section
variable (cm : List (Bytes × Bytes))

/-- what the pipeline reads, layout of the routing headers abstracted away -/
structure LView where
  start : StartLine
  body : Bytes
  via : List ViaParam
  route : List RouteParam
  rr : List RouteParam
  rrP : Bool
  fromV : Option FromTo
  toV : Option FromTo
  cseqV : Option CSeq
  callId : Option Bytes
  expires : Option Bytes
  subst : Option Bytes
  rest : List Header

/-- a name of one of the three routing classes -/
def routing (n : Bytes) : Bool :=
  isSameHeader cm n viaName || isSameHeader cm n routeName || isSameHeader cm n recordRouteName

/-- all headers outside the three routing classes: names, values (decoded or not), order -/
def restOf (hs : List Header) : List Header := hs.filter (fun h => !routing cm h.name)

def lview (m : Message) : LView :=
  { start := m.start, body := m.body, via := viaStack cm m.headers, route := routeStack cm m.headers,
    rr := rrStack cm m.headers, rrP := (findHeader cm m.headers recordRouteName).isSome,
    fromV := (getFrom cm m).map Prod.fst, toV := (getTo cm m).map Prod.fst, cseqV := (getCSeq cm m).map Prod.fst,
    callId := getRawHeader cm m callIdName, expires := getRawHeader cm m expiresName,
    subst := getRawHeader cm m subscriptionStateName, rest := restOf cm m.headers }

/-- every Via-class and every Route-class header decodes (to a non-empty list) -/
def LOK (m : Message) : Prop := ViaOK cm m.headers ∧ RouteOK cm m.headers

/-- same message up to the layout of the routing headers -/
def LR (m m' : Message) : Prop := LOK cm m ∧ LOK cm m' ∧ lview cm m = lview cm m'

theorem LR.refl {m : Message} (h : LOK cm m) : LR cm m m := ⟨h, h, rfl⟩
theorem LR.symm {m m' : Message} (h : LR cm m m') : LR cm m' m := ⟨h.2.1, h.1, h.2.2.symm⟩

/-- one operation, one side: well-formedness is kept and the view changes by `f` -/
def Step (f : LView → LView) (m m1 : Message) : Prop := LOK cm m → LOK cm m1 ∧ lview cm m1 = f (lview cm m)

theorem LR.step {f : LView → LView} {m m' m1 m1' : Message} (H : LR cm m m')
    (s : Step cm f m m1) (s' : Step cm f m' m1') : LR cm m1 m1' := by
  obtain ⟨a, b⟩ := s H.1
  obtain ⟨a', b'⟩ := s' H.2.1
  exact ⟨a, a', by rw [b, b', H.2.2]⟩

/-- all classes of the pipeline's keys are pairwise disjoint -/
def AllDisj : Prop := ∀ a ∈ pipeKeys, ∀ b ∈ pipeKeys, a ≠ b → Disj cm a b

theorem allDisj_of_sane (hs : SaneFor cm pipeKeys) : AllDisj cm :=
  fun _ ha _ hb hab _ h => hs.disj cm ha hb hab h

/-! ### the components are functions of the class views -/

theorem viaOK_of_view {hs hs' : List Header} (h : classView cm viaName hs' = classView cm viaName hs)
    (hok : ViaOK cm hs) : ViaOK cm hs' := by
  intro x hx hc
  have : x ∈ classView cm viaName hs' := by simp [classView, hx, hc]
  rw [h] at this
  exact hok x (List.mem_filter.mp this).1 hc

theorem routeOK_of_view {hs hs' : List Header} (h : classView cm routeName hs' = classView cm routeName hs)
    (hok : RouteOK cm hs) : RouteOK cm hs' := by
  intro x hx hc
  have : x ∈ classView cm routeName hs' := by simp [classView, hx, hc]
  rw [h] at this
  exact hok x (List.mem_filter.mp this).1 hc

theorem getFrom_fst_of_view {m m' : Message}
    (h : classView cm fromName m'.headers = classView cm fromName m.headers) :
    (getFrom cm m').map Prod.fst = (getFrom cm m).map Prod.fst := by
  have hf := findHeader_of_view cm fromName h
  unfold getFrom
  rw [hf]
  cases findHeader cm m.headers fromName with
  | none => rfl
  | some hd =>
    simp only []
    cases hd.value with
    | raw s => simp only []; cases parseFromTo s <;> rfl
    | _ => rfl

theorem getTo_fst_of_view {m m' : Message}
    (h : classView cm toName m'.headers = classView cm toName m.headers) :
    (getTo cm m').map Prod.fst = (getTo cm m).map Prod.fst := by
  have hf := findHeader_of_view cm toName h
  unfold getTo
  rw [hf]
  cases findHeader cm m.headers toName with
  | none => rfl
  | some hd =>
    simp only []
    cases hd.value with
    | raw s => simp only []; cases parseFromTo s <;> rfl
    | _ => rfl

theorem getCSeq_fst_of_view {m m' : Message}
    (h : classView cm cseqName m'.headers = classView cm cseqName m.headers) :
    (getCSeq cm m').map Prod.fst = (getCSeq cm m).map Prod.fst := by
  have hf := findHeader_of_view cm cseqName h
  unfold getCSeq
  rw [hf]
  cases findHeader cm m.headers cseqName with
  | none => rfl
  | some hd =>
    simp only []
    cases hd.value with
    | raw s => simp only []; cases parseCSeq s <;> rfl
    | _ => rfl

theorem getRawHeader_of_view {m m' : Message} {n : Bytes}
    (h : classView cm n m'.headers = classView cm n m.headers) : getRawHeader cm m' n = getRawHeader cm m n := by
  unfold getRawHeader
  rw [findHeader_of_view cm n h]

/-! ### the headers outside the routing classes -/

theorem restOf_setFirst_routing {n : Bytes} (hn : ∀ x, isSameHeader cm x n = true → routing cm x = true)
    (hs : List Header) (v : HVal) : restOf cm (setFirst cm hs n v) = restOf cm hs := by
  induction hs with
  | nil => rfl
  | cons x xs ih =>
    simp only [restOf] at ih
    cases hx : isSameHeader cm x.name n with
    | true => simp [restOf, setFirst, hx, hn x.name hx]
    | false => simp [restOf, setFirst, hx, List.filter_cons, ih]

theorem restOf_removeHeader_routing {n : Bytes} (hn : ∀ x, isSameHeader cm x n = true → routing cm x = true)
    (hs : List Header) : restOf cm (removeHeader cm hs n) = restOf cm hs := by
  induction hs with
  | nil => rfl
  | cons x xs ih =>
    simp only [restOf] at ih
    cases hx : isSameHeader cm x.name n with
    | true => simp [restOf, removeHeader, hx, hn x.name hx]
    | false => simp [restOf, removeHeader, hx, List.filter_cons, ih]

theorem restOf_insertAt_routing (hs : List Header) (p : Nat) (x : Header) (hx : routing cm x.name = true) :
    restOf cm (insertAt hs p x) = restOf cm hs := by
  simp only [insertAt, restOf, List.filter_append, List.filter_cons, hx]
  simp only [Bool.not_true, Bool.false_eq_true, ↓reduceIte]
  rw [← List.filter_append, List.take_append_drop]

theorem restOf_forEachVia (hs : List Header) : restOf cm (forEachViaHeaders cm hs).1 = restOf cm hs := by
  induction hs with
  | nil => rfl
  | cons h hs ih =>
    rw [forEachViaHeaders_cons]
    simp only [restOf] at ih
    cases hx : isSameHeader cm h.name viaName with
    | false => simp [restOf, List.filter_cons, ih]
    | true =>
      have hr : routing cm h.name = true := by simp [routing, hx]
      simp only [Bool.not_true, Bool.false_eq_true, ↓reduceIte]
      split
      · simp [restOf, List.filter_cons, ih]
      · split
        · simp [restOf, List.filter_cons, ih]
        · simp [restOf, ih, hr]
      · simp [restOf, List.filter_cons, ih]

/-- writing into the first header of a NON-routing class commutes with dropping the routing headers -/
theorem restOf_setFirst_other {n : Bytes} (hn : ∀ x, isSameHeader cm x n = true → routing cm x = false)
    (hs : List Header) (v : HVal) : restOf cm (setFirst cm hs n v) = setFirst cm (restOf cm hs) n v := by
  induction hs with
  | nil => rfl
  | cons x xs ih =>
    simp only [restOf] at ih
    cases hx : isSameHeader cm x.name n with
    | true => simp [restOf, setFirst, hx, hn x.name hx]
    | false =>
      cases hr : routing cm x.name with
      | true => simp [restOf, setFirst, hx, hr, ih]
      | false => simp [restOf, setFirst, hx, hr, ih]

theorem routing_via {x : Bytes} (h : isSameHeader cm x viaName = true) : routing cm x = true := by simp [routing, h]
theorem routing_route {x : Bytes} (h : isSameHeader cm x routeName = true) : routing cm x = true := by simp [routing, h]
theorem routing_rr {x : Bytes} (h : isSameHeader cm x recordRouteName = true) : routing cm x = true := by
  simp [routing, h]

/-! ### an operation on the class `X`: everything of the other classes is kept -/

/-- `m1` is `m` after an operation that works on the headers of class `X` only -/
structure Kept (X : Bytes) (m m1 : Message) : Prop where
  start : m1.start = m.start
  body : m1.body = m.body
  views : ∀ n, Disj cm X n → classView cm n m1.headers = classView cm n m.headers

theorem Kept.refl (X : Bytes) (m : Message) : Kept cm X m m := ⟨rfl, rfl, fun _ _ => rfl⟩

theorem Kept.trans {X : Bytes} {a b c : Message} (h : Kept cm X a b) (k : Kept cm X b c) : Kept cm X a c :=
  ⟨k.start.trans h.start, k.body.trans h.body, fun n d => (k.views n d).trans (h.views n d)⟩

theorem Kept.withHeaders {X : Bytes} {m : Message} {hs : List Header}
    (h : ∀ n, Disj cm X n → classView cm n hs = classView cm n m.headers) :
    Kept cm X m { m with headers := hs } := ⟨rfl, rfl, h⟩

variable {cm}

/-- the fields of the classes other than `X` -/
theorem Kept.fields (hD : AllDisj cm) {X : Bytes} (hX : X ∈ pipeKeys) {m m1 : Message} (k : Kept cm X m m1) :
    (X ≠ viaName → (ViaOK cm m.headers → ViaOK cm m1.headers) ∧ viaStack cm m1.headers = viaStack cm m.headers) ∧
    (X ≠ routeName → (RouteOK cm m.headers → RouteOK cm m1.headers) ∧ routeStack cm m1.headers = routeStack cm m.headers) ∧
    (X ≠ recordRouteName → rrStack cm m1.headers = rrStack cm m.headers ∧
      (findHeader cm m1.headers recordRouteName).isSome = (findHeader cm m.headers recordRouteName).isSome) ∧
    (X ≠ fromName → (getFrom cm m1).map Prod.fst = (getFrom cm m).map Prod.fst) ∧
    (X ≠ toName → (getTo cm m1).map Prod.fst = (getTo cm m).map Prod.fst) ∧
    (X ≠ cseqName → (getCSeq cm m1).map Prod.fst = (getCSeq cm m).map Prod.fst) ∧
    (X ≠ callIdName → getRawHeader cm m1 callIdName = getRawHeader cm m callIdName) ∧
    (X ≠ expiresName → getRawHeader cm m1 expiresName = getRawHeader cm m expiresName) ∧
    (X ≠ subscriptionStateName → getRawHeader cm m1 subscriptionStateName = getRawHeader cm m subscriptionStateName) := by
  refine ⟨fun hne => ?_, fun hne => ?_, fun hne => ?_, fun hne => ?_, fun hne => ?_, fun hne => ?_,
          fun hne => ?_, fun hne => ?_, fun hne => ?_⟩
  · have v := k.views _ (hD X hX _ pc_via hne)
    exact ⟨viaOK_of_view cm v, stackOf_of_view cm _ _ v⟩
  · have v := k.views _ (hD X hX _ pc_route hne)
    exact ⟨routeOK_of_view cm v, stackOf_of_view cm _ _ v⟩
  · have v := k.views _ (hD X hX _ pc_recordRoute hne)
    exact ⟨stackOf_of_view cm _ _ v, by rw [findHeader_of_view cm _ v]⟩
  · exact getFrom_fst_of_view cm (k.views _ (hD X hX _ pc_from hne))
  · exact getTo_fst_of_view cm (k.views _ (hD X hX _ pc_to hne))
  · exact getCSeq_fst_of_view cm (k.views _ (hD X hX _ pc_cseq hne))
  · exact getRawHeader_of_view cm (k.views _ (hD X hX _ pc_callId hne))
  · exact getRawHeader_of_view cm (k.views _ (hD X hX _ pc_expires hne))
  · exact getRawHeader_of_view cm (k.views _ (hD X hX _ pc_subscriptionState hne))

/-- the names of the keys are pairwise different -/
theorem pipeKeys_ne :
    viaName ≠ routeName ∧ viaName ≠ recordRouteName ∧ viaName ≠ fromName ∧ viaName ≠ toName ∧ viaName ≠ cseqName ∧
    viaName ≠ callIdName ∧ viaName ≠ expiresName ∧ viaName ≠ subscriptionStateName ∧
    routeName ≠ recordRouteName ∧ routeName ≠ fromName ∧ routeName ≠ toName ∧ routeName ≠ cseqName ∧
    routeName ≠ callIdName ∧ routeName ≠ expiresName ∧ routeName ≠ subscriptionStateName ∧
    recordRouteName ≠ fromName ∧ recordRouteName ≠ toName ∧ recordRouteName ≠ cseqName ∧
    recordRouteName ≠ callIdName ∧ recordRouteName ≠ expiresName ∧ recordRouteName ≠ subscriptionStateName ∧
    fromName ≠ toName ∧ fromName ≠ cseqName ∧ fromName ≠ callIdName ∧ fromName ≠ expiresName ∧
    fromName ≠ subscriptionStateName ∧
    toName ≠ cseqName ∧ toName ≠ callIdName ∧ toName ≠ expiresName ∧ toName ≠ subscriptionStateName ∧
    cseqName ≠ callIdName ∧ cseqName ≠ expiresName ∧ cseqName ≠ subscriptionStateName := by
  repeat' apply And.intro
  all_goals decide +kernel

/-- an operation on the Via class that changes the Via stack by `fv` -/
theorem step_via (hD : AllDisj cm) {m m1 : Message} {fv : List ViaParam → List ViaParam} (k : Kept cm viaName m m1)
    (hrest : restOf cm m1.headers = restOf cm m.headers)
    (own : ViaOK cm m.headers → ViaOK cm m1.headers ∧ viaStack cm m1.headers = fv (viaStack cm m.headers)) :
    Step cm (fun a => { a with via := fv a.via }) m m1 := by
  intro ⟨hv, hr⟩
  obtain ⟨hv1, hs⟩ := own hv
  obtain ⟨_, f2, f3, f4, f5, f6, f7, f8, f9⟩ := k.fields hD pc_via
  obtain ⟨n1, n2, n3, n4, n5, n6, n7, n8, _⟩ := pipeKeys_ne
  refine ⟨⟨hv1, (f2 n1).1 hr⟩, ?_⟩
  simp only [lview, k.start, k.body, hs, hrest, (f2 n1).2, (f3 n2).1, (f3 n2).2, f4 n3, f5 n4, f6 n5, f7 n6, f8 n7, f9 n8]

theorem step_route (hD : AllDisj cm) {m m1 : Message} {fr : List RouteParam → List RouteParam} (k : Kept cm routeName m m1)
    (hrest : restOf cm m1.headers = restOf cm m.headers)
    (own : RouteOK cm m.headers → RouteOK cm m1.headers ∧ routeStack cm m1.headers = fr (routeStack cm m.headers)) :
    Step cm (fun a => { a with route := fr a.route }) m m1 := by
  intro ⟨hv, hr⟩
  obtain ⟨hr1, hs⟩ := own hr
  obtain ⟨f1, _, f3, f4, f5, f6, f7, f8, f9⟩ := k.fields hD pc_route
  obtain ⟨n1, _, _, _, _, _, _, _, n2, n3, n4, n5, n6, n7, n8, _⟩ := pipeKeys_ne
  refine ⟨⟨(f1 n1.symm).1 hv, hr1⟩, ?_⟩
  simp only [lview, k.start, k.body, hs, hrest, (f1 n1.symm).2, (f3 n2).1, (f3 n2).2, f4 n3, f5 n4, f6 n5, f7 n6, f8 n7, f9 n8]

theorem step_rr (hD : AllDisj cm) {m m1 : Message} {frr : List RouteParam → List RouteParam} {fp : Bool → Bool}
    (k : Kept cm recordRouteName m m1) (hrest : restOf cm m1.headers = restOf cm m.headers)
    (own : rrStack cm m1.headers = frr (rrStack cm m.headers) ∧
      (findHeader cm m1.headers recordRouteName).isSome = fp (findHeader cm m.headers recordRouteName).isSome) :
    Step cm (fun a => { a with rr := frr a.rr, rrP := fp a.rrP }) m m1 := by
  intro ⟨hv, hr⟩
  obtain ⟨f1, f2, _, f4, f5, f6, f7, f8, f9⟩ := k.fields hD pc_recordRoute
  obtain ⟨_, n1, _, _, _, _, _, _, n2, _, _, _, _, _, _, n3, n4, n5, n6, n7, n8, _⟩ := pipeKeys_ne
  refine ⟨⟨(f1 n1.symm).1 hv, (f2 n2.symm).1 hr⟩, ?_⟩
  simp only [lview, k.start, k.body, own.1, own.2, hrest, (f1 n1.symm).2, (f2 n2.symm).2, f4 n3, f5 n4, f6 n5, f7 n6, f8 n7, f9 n8]

theorem step_from (hD : AllDisj cm) {m m1 : Message} {g : List Header → List Header} (k : Kept cm fromName m m1)
    (hrest : restOf cm m1.headers = g (restOf cm m.headers))
    (own : (getFrom cm m1).map Prod.fst = (getFrom cm m).map Prod.fst) :
    Step cm (fun a => { a with rest := g a.rest }) m m1 := by
  intro ⟨hv, hr⟩
  obtain ⟨f1, f2, f3, _, f5, f6, f7, f8, f9⟩ := k.fields hD pc_from
  obtain ⟨_, _, n1, _, _, _, _, _, _, n2, _, _, _, _, _, n3, _, _, _, _, _, n4, n5, n6, n7, n8, _⟩ := pipeKeys_ne
  refine ⟨⟨(f1 n1.symm).1 hv, (f2 n2.symm).1 hr⟩, ?_⟩
  simp only [lview, k.start, k.body, own, hrest, (f1 n1.symm).2, (f2 n2.symm).2, (f3 n3.symm).1, (f3 n3.symm).2,
    f5 n4, f6 n5, f7 n6, f8 n7, f9 n8]

theorem step_to (hD : AllDisj cm) {m m1 : Message} {g : List Header → List Header} (k : Kept cm toName m m1)
    (hrest : restOf cm m1.headers = g (restOf cm m.headers))
    (own : (getTo cm m1).map Prod.fst = (getTo cm m).map Prod.fst) :
    Step cm (fun a => { a with rest := g a.rest }) m m1 := by
  intro ⟨hv, hr⟩
  obtain ⟨f1, f2, f3, f4, _, f6, f7, f8, f9⟩ := k.fields hD pc_to
  obtain ⟨_, _, _, n1, _, _, _, _, _, _, n2, _, _, _, _, _, n3, _, _, _, _, n4, _, _, _, _, n5, n6, n7, n8, _⟩ :=
    pipeKeys_ne
  refine ⟨⟨(f1 n1.symm).1 hv, (f2 n2.symm).1 hr⟩, ?_⟩
  simp only [lview, k.start, k.body, own, hrest, (f1 n1.symm).2, (f2 n2.symm).2, (f3 n3.symm).1, (f3 n3.symm).2,
    f4 n4.symm, f6 n5, f7 n6, f8 n7, f9 n8]

theorem step_cseq (hD : AllDisj cm) {m m1 : Message} {g : List Header → List Header} (k : Kept cm cseqName m m1)
    (hrest : restOf cm m1.headers = g (restOf cm m.headers))
    (own : (getCSeq cm m1).map Prod.fst = (getCSeq cm m).map Prod.fst) :
    Step cm (fun a => { a with rest := g a.rest }) m m1 := by
  intro ⟨hv, hr⟩
  obtain ⟨f1, f2, f3, f4, f5, _, f7, f8, f9⟩ := k.fields hD pc_cseq
  obtain ⟨_, _, _, _, n1, _, _, _, _, _, _, n2, _, _, _, _, _, n3, _, _, _, _, n4, _, _, _, n5, _, _, _, n6, n7, n8⟩ :=
    pipeKeys_ne
  refine ⟨⟨(f1 n1.symm).1 hv, (f2 n2.symm).1 hr⟩, ?_⟩
  simp only [lview, k.start, k.body, own, hrest, (f1 n1.symm).2, (f2 n2.symm).2, (f3 n3.symm).1, (f3 n3.symm).2,
    f4 n4.symm, f5 n5.symm, f7 n6, f8 n7, f9 n8]

variable (cm)

/-! ### the getters are idempotent -/

theorem getFrom_idem {m m' : Message} {f : FromTo} (h : getFrom cm m = some (f, m')) :
    getFrom cm m' = some (f, m') := by
  have hm := getFrom_some cm h
  have hf : ∃ hd, findHeader cm m.headers fromName = some hd := by
    unfold getFrom at h
    cases hf : findHeader cm m.headers fromName with
    | none => rw [hf] at h; cases h
    | some hd => exact ⟨hd, rfl⟩
  obtain ⟨hd, hf⟩ := hf
  have := findHeader_setFirst cm fromName m.headers hd (.fromSpec f) hf
  subst hm
  simp [getFrom, this]

theorem getTo_idem {m m' : Message} {f : FromTo} (h : getTo cm m = some (f, m')) :
    getTo cm m' = some (f, m') := by
  have hm := getTo_some cm h
  have hf : ∃ hd, findHeader cm m.headers toName = some hd := by
    unfold getTo at h
    cases hf : findHeader cm m.headers toName with
    | none => rw [hf] at h; cases h
    | some hd => exact ⟨hd, rfl⟩
  obtain ⟨hd, hf⟩ := hf
  have := findHeader_setFirst cm toName m.headers hd (.to f) hf
  subst hm
  simp [getTo, this]

theorem getCSeq_idem {m m' : Message} {c : CSeq} (h : getCSeq cm m = some (c, m')) :
    getCSeq cm m' = some (c, m') := by
  have hm := getCSeq_some cm h
  have hf : ∃ hd, findHeader cm m.headers cseqName = some hd := by
    unfold getCSeq at h
    cases hf : findHeader cm m.headers cseqName with
    | none => rw [hf] at h; cases h
    | some hd => exact ⟨hd, rfl⟩
  obtain ⟨hd, hf⟩ := hf
  have := findHeader_setFirst cm cseqName m.headers hd (.cseq c) hf
  subst hm
  simp [getCSeq, this]

/-! ### `Kept` for every primitive -/

theorem kept_getVia {m m1 : Message} {v : List ViaParam} (h : getVia cm m = some (v, m1)) : Kept cm viaName m m1 := by
  obtain ⟨_, _, _, hm⟩ := getVia_some cm h
  exact ⟨by rw [hm], by rw [hm], fun n d => sv_getVia cm d h⟩

theorem kept_getRoute {m m1 : Message} {v : List RouteParam} (h : getRoute cm m = some (v, m1)) :
    Kept cm routeName m m1 := by
  obtain ⟨_, _, _, hm⟩ := getRoute_some cm h
  exact ⟨by rw [hm], by rw [hm], fun n d => sv_getRoute cm d h⟩

theorem kept_getFrom {m m1 : Message} {f : FromTo} (h : getFrom cm m = some (f, m1)) : Kept cm fromName m m1 := by
  have hm := getFrom_some cm h
  exact ⟨by rw [hm], by rw [hm], fun n d => sv_getFrom cm d h⟩

theorem kept_getTo {m m1 : Message} {f : FromTo} (h : getTo cm m = some (f, m1)) : Kept cm toName m m1 := by
  have hm := getTo_some cm h
  exact ⟨by rw [hm], by rw [hm], fun n d => sv_getTo cm d h⟩

theorem kept_getCSeq {m m1 : Message} {c : CSeq} (h : getCSeq cm m = some (c, m1)) : Kept cm cseqName m m1 := by
  have hm := getCSeq_some cm h
  exact ⟨by rw [hm], by rw [hm], fun n d => sv_getCSeq cm d h⟩

theorem kept_popVia {m m1 : Message} (h : popVia cm m = some m1) : Kept cm viaName m m1 := by
  refine ⟨?_, ?_, fun n d => sv_popVia cm d h⟩
  all_goals
    unfold popVia at h
    split at h
    · cases h
    · rename_i v m' hg
      obtain ⟨_, _, _, hm⟩ := getVia_some cm hg
      split at h <;> cases h <;> rw [hm]

theorem kept_popRoute {m m1 : Message} (h : popRoute cm m = some m1) : Kept cm routeName m m1 := by
  refine ⟨?_, ?_, fun n d => sv_popRoute cm d h⟩
  all_goals
    unfold popRoute at h
    split at h
    · cases h
    · rename_i v m' hg
      obtain ⟨_, _, _, hm⟩ := getRoute_some cm hg
      split at h <;> cases h <;> rw [hm]

theorem kept_setReceived (m : Message) (ip : Bytes) (port : Int) : Kept cm viaName m (setReceived cm m ip port) := by
  refine ⟨?_, ?_, fun n d => sv_setReceived cm d m ip port⟩
  all_goals
    cases hg : getVia cm m with
    | none => rw [setReceived_of_none cm ip port hg]
    | some p =>
      obtain ⟨v, m1⟩ := p
      obtain ⟨_, _, _, hm⟩ := getVia_some cm hg
      cases v with
      | nil => rw [setReceived_of_nil cm ip port hg, hm]
      | cons vp rest => rw [setReceived_of_cons cm ip port hg]

theorem kept_addVia (m : Message) (vp : ViaParam) : Kept cm viaName m (addVia cm m vp) :=
  ⟨rfl, rfl, fun _ d => sv_addVia cm d m vp⟩

theorem kept_addRecordRoute (m : Message) (rr : RouteParam) : Kept cm recordRouteName m (addRecordRoute cm m rr) :=
  ⟨rfl, rfl, fun _ d => sv_addRecordRoute cm d m rr⟩

theorem kept_forEachVia (m : Message) : Kept cm viaName m { m with headers := (forEachViaHeaders cm m.headers).1 } :=
  ⟨rfl, rfl, fun _ d => sv_forEachViaHeaders cm d m.headers⟩

/-! ### … and what they do to the non-routing headers -/

theorem rest_getVia {m m1 : Message} {v : List ViaParam} (h : getVia cm m = some (v, m1)) :
    restOf cm m1.headers = restOf cm m.headers := by
  obtain ⟨_, _, _, rfl⟩ := getVia_some cm h
  exact restOf_setFirst_routing cm (fun _ => routing_via cm) _ _

theorem rest_getRoute {m m1 : Message} {v : List RouteParam} (h : getRoute cm m = some (v, m1)) :
    restOf cm m1.headers = restOf cm m.headers := by
  obtain ⟨_, _, _, rfl⟩ := getRoute_some cm h
  exact restOf_setFirst_routing cm (fun _ => routing_route cm) _ _

theorem rest_popVia {m m1 : Message} (h : popVia cm m = some m1) : restOf cm m1.headers = restOf cm m.headers := by
  unfold popVia at h
  split at h
  · cases h
  · rename_i v m' hg
    have h1 := rest_getVia cm hg
    split at h <;> cases h
    · exact (restOf_setFirst_routing cm (fun _ => routing_via cm) _ _).trans h1
    · exact (restOf_removeHeader_routing cm (fun _ => routing_via cm) _).trans h1

theorem rest_popRoute {m m1 : Message} (h : popRoute cm m = some m1) : restOf cm m1.headers = restOf cm m.headers := by
  unfold popRoute at h
  split at h
  · cases h
  · rename_i v m' hg
    have h1 := rest_getRoute cm hg
    split at h <;> cases h
    · exact (restOf_setFirst_routing cm (fun _ => routing_route cm) _ _).trans h1
    · exact (restOf_removeHeader_routing cm (fun _ => routing_route cm) _).trans h1

theorem rest_setReceived (m : Message) (ip : Bytes) (port : Int) :
    restOf cm (setReceived cm m ip port).headers = restOf cm m.headers := by
  cases hg : getVia cm m with
  | none => rw [setReceived_of_none cm ip port hg]
  | some p =>
    obtain ⟨v, m1⟩ := p
    cases v with
    | nil => rw [setReceived_of_nil cm ip port hg]; exact rest_getVia cm hg
    | cons vp rest =>
      rw [setReceived_of_cons cm ip port hg]
      exact restOf_setFirst_routing cm (fun _ => routing_via cm) _ _

theorem rest_addVia (m : Message) (vp : ViaParam) : restOf cm (addVia cm m vp).headers = restOf cm m.headers :=
  restOf_insertAt_routing cm _ _ _ (routing_via cm (isSameHeader_refl cm viaName))

theorem rest_addRecordRoute (m : Message) (rr : RouteParam) :
    restOf cm (addRecordRoute cm m rr).headers = restOf cm m.headers :=
  restOf_insertAt_routing cm _ _ _ (routing_rr cm (isSameHeader_refl cm recordRouteName))

/-- a class disjoint from the three routing classes holds no routing name -/
theorem not_routing_of_disj {n : Bytes} (d1 : Disj cm n viaName) (d2 : Disj cm n routeName)
    (d3 : Disj cm n recordRouteName) : ∀ x, isSameHeader cm x n = true → routing cm x = false := by
  intro x hx
  simp [routing, d1 x hx, d2 x hx, d3 x hx]

theorem rest_getFrom (hn : ∀ x, isSameHeader cm x fromName = true → routing cm x = false)
    {m m1 : Message} {f : FromTo} (h : getFrom cm m = some (f, m1)) :
    restOf cm m1.headers = setFirst cm (restOf cm m.headers) fromName (.fromSpec f) := by
  rw [getFrom_some cm h]
  exact restOf_setFirst_other cm hn _ _

theorem rest_getTo (hn : ∀ x, isSameHeader cm x toName = true → routing cm x = false)
    {m m1 : Message} {f : FromTo} (h : getTo cm m = some (f, m1)) :
    restOf cm m1.headers = setFirst cm (restOf cm m.headers) toName (.to f) := by
  rw [getTo_some cm h]
  exact restOf_setFirst_other cm hn _ _

theorem rest_getCSeq (hn : ∀ x, isSameHeader cm x cseqName = true → routing cm x = false)
    {m m1 : Message} {c : CSeq} (h : getCSeq cm m = some (c, m1)) :
    restOf cm m1.headers = setFirst cm (restOf cm m.headers) cseqName (.cseq c) := by
  rw [getCSeq_some cm h]
  exact restOf_setFirst_other cm hn _ _

/-! ### own-class facts not yet available -/

theorem viaOK_insertAt {hs : List Header} (hok : ViaOK cm hs) (p : Nat) {x : Header} {v : List ViaParam}
    (hx : x.value = .via v) (hv : v ≠ []) : ViaOK cm (insertAt hs p x) := by
  intro h hm hc
  simp only [insertAt, List.mem_append, List.mem_cons] at hm
  rcases hm with hm | rfl | hm
  · exact hok h (List.mem_of_mem_take hm) hc
  · exact Or.inl ⟨v, hx, hv⟩
  · exact hok h (List.mem_of_mem_drop hm) hc

theorem viaOK_forEachVia {hs : List Header} (hok : ViaOK cm hs) : ViaOK cm (forEachViaHeaders cm hs).1 := by
  induction hs with
  | nil => exact hok
  | cons h hs ih =>
    have hok' : ViaOK cm hs := fun x hx hc => hok x (List.mem_cons_of_mem _ hx) hc
    have ih' := ih hok'
    have hh := hok h List.mem_cons_self
    rw [forEachViaHeaders_cons]
    have keep : ViaOK cm (h :: (forEachViaHeaders cm hs).1) := by
      intro x hx hc
      rcases List.mem_cons.mp hx with rfl | hx
      · exact hh hc
      · exact ih' x hx hc
    split
    · exact keep
    · split
      · exact keep
      · split
        · exact keep
        · rename_i v hp
          intro x hx hc
          rcases List.mem_cons.mp hx with rfl | hx
          · exact Or.inl ⟨v, rfl, parseVia_ne_nil _ v hp⟩
          · exact ih' x hx hc
      · exact keep

theorem findHeader_insertAt_isSome (hs : List Header) (p : Nat) (x : Header) (n : Bytes)
    (hx : isSameHeader cm x.name n = true) : (findHeader cm (insertAt hs p x) n).isSome = true := by
  simp only [findHeader, insertAt, List.find?_append, List.find?_cons, hx]
  cases List.find? (fun h => isSameHeader cm h.name n) (List.take p hs) <;> rfl

end

/-! ### the instance -/

section Instance
variable {cm : List (Bytes × Bytes)} (hD : AllDisj cm)
include hD

omit hD in
theorem nonrouting_ne :
    fromName ≠ viaName ∧ fromName ≠ routeName ∧ fromName ≠ recordRouteName ∧
    toName ≠ viaName ∧ toName ≠ routeName ∧ toName ≠ recordRouteName ∧
    cseqName ≠ viaName ∧ cseqName ≠ routeName ∧ cseqName ≠ recordRouteName := by
  repeat' apply And.intro
  all_goals decide +kernel

/-- From, To and CSeq names are not routing names -/
theorem not_routing_keys :
    (∀ x, isSameHeader cm x fromName = true → routing cm x = false) ∧
    (∀ x, isSameHeader cm x toName = true → routing cm x = false) ∧
    (∀ x, isSameHeader cm x cseqName = true → routing cm x = false) := by
  obtain ⟨a1, a2, a3, b1, b2, b3, c1, c2, c3⟩ := nonrouting_ne
  exact ⟨not_routing_of_disj cm (hD _ pc_from _ pc_via a1) (hD _ pc_from _ pc_route a2) (hD _ pc_from _ pc_recordRoute a3),
    not_routing_of_disj cm (hD _ pc_to _ pc_via b1) (hD _ pc_to _ pc_route b2) (hD _ pc_to _ pc_recordRoute b3),
    not_routing_of_disj cm (hD _ pc_cseq _ pc_via c1) (hD _ pc_cseq _ pc_route c2) (hD _ pc_cseq _ pc_recordRoute c3)⟩

theorem lr_getVia {m m' : Message} (H : LR cm m m') : HeadRel (LR cm) (getVia cm m) (getVia cm m') := by
  have hst : viaStack cm m.headers = viaStack cm m'.headers := congrArg LView.via H.2.2
  have stepOf : ∀ {x x1 : Message} {v : List ViaParam}, getVia cm x = some (v, x1) → v ≠ [] → Step cm id x x1 := by
    intro x x1 v hg hne
    have := step_via (fv := id) hD (kept_getVia cm hg) (rest_getVia cm hg) (fun hok => by
      obtain ⟨hd, hf, hv, rfl⟩ := getVia_some cm hg
      exact ⟨viaOK_setFirst cm hok _ hne, (viaStack_getVia cm hg).1⟩)
    exact this
  rcases getVia_of_viaOK cm H.1.1 with ⟨h1, s1⟩ | ⟨vp, v, m1, rest, h1, s1⟩
  · rcases getVia_of_viaOK cm H.2.1.1 with ⟨h2, _⟩ | ⟨vp', v', m1', rest', h2, s2⟩
    · exact Or.inl ⟨h1, h2⟩
    · rw [← hst, s1] at s2; cases s2
  · rcases getVia_of_viaOK cm H.2.1.1 with ⟨h2, s2⟩ | ⟨vp', v', m1', rest', h2, s2⟩
    · rw [hst, s2] at s1; cases s1
    · have : vp = vp' := by
        rw [hst, s2] at s1
        simp only [List.cons_append, List.cons.injEq] at s1
        exact s1.1.symm
      subst this
      exact Or.inr ⟨_, _, m1, m1', h1, h2, rfl, H.step cm (stepOf h1 (by simp)) (stepOf h2 (by simp))⟩

theorem lr_getRoute {m m' : Message} (H : LR cm m m') : HeadRel (LR cm) (getRoute cm m) (getRoute cm m') := by
  have hst : routeStack cm m.headers = routeStack cm m'.headers := congrArg LView.route H.2.2
  have stepOf : ∀ {x x1 : Message} {v : List RouteParam}, getRoute cm x = some (v, x1) → v ≠ [] → Step cm id x x1 := by
    intro x x1 v hg hne
    have := step_route (fr := id) hD (kept_getRoute cm hg) (rest_getRoute cm hg) (fun hok => by
      obtain ⟨hd, hf, hv, rfl⟩ := getRoute_some cm hg
      exact ⟨routeOK_setFirst cm hok _ hne, (routeStack_getRoute cm hg).1⟩)
    exact this
  rcases getRoute_of_routeOK cm H.1.2 with ⟨h1, s1⟩ | ⟨vp, v, m1, rest, h1, s1⟩
  · rcases getRoute_of_routeOK cm H.2.1.2 with ⟨h2, _⟩ | ⟨vp', v', m1', rest', h2, s2⟩
    · exact Or.inl ⟨h1, h2⟩
    · rw [← hst, s1] at s2; cases s2
  · rcases getRoute_of_routeOK cm H.2.1.2 with ⟨h2, s2⟩ | ⟨vp', v', m1', rest', h2, s2⟩
    · rw [hst, s2] at s1; cases s1
    · have : vp = vp' := by
        rw [hst, s2] at s1
        simp only [List.cons_append, List.cons.injEq] at s1
        exact s1.1.symm
      subst this
      exact Or.inr ⟨_, _, m1, m1', h1, h2, rfl, H.step cm (stepOf h1 (by simp)) (stepOf h2 (by simp))⟩

omit hD in
/-- equal `map fst` of two getter results: both none, or both some with the same value -/
theorem fst_cases {α : Type} {r r' : Option (α × Message)} (h : r.map Prod.fst = r'.map Prod.fst) :
    (r = none ∧ r' = none) ∨ ∃ a m1 m1', r = some (a, m1) ∧ r' = some (a, m1') := by
  cases r with
  | none =>
    cases r' with
    | none => exact Or.inl ⟨rfl, rfl⟩
    | some p => simp at h
  | some p =>
    cases r' with
    | none => simp at h
    | some p' =>
      obtain ⟨a, m1⟩ := p
      obtain ⟨a', m1'⟩ := p'
      simp only [Option.map_some, Option.some.injEq] at h
      subst h
      exact Or.inr ⟨a, m1, m1', rfl, rfl⟩

theorem lr_getFrom {m m' : Message} (H : LR cm m m') : GRel (LR cm) (getFrom cm m) (getFrom cm m') := by
  rcases fst_cases (congrArg LView.fromV H.2.2) with h | ⟨f, m1, m1', h1, h2⟩
  · exact Or.inl h
  · have hn := (not_routing_keys hD).1
    exact Or.inr ⟨f, m1, m1', h1, h2, H.step cm
      (step_from (g := fun r => setFirst cm r fromName (.fromSpec f)) hD (kept_getFrom cm h1) (rest_getFrom cm hn h1) (by rw [getFrom_idem cm h1, h1]))
      (step_from (g := fun r => setFirst cm r fromName (.fromSpec f)) hD (kept_getFrom cm h2) (rest_getFrom cm hn h2) (by rw [getFrom_idem cm h2, h2]))⟩

theorem lr_getTo {m m' : Message} (H : LR cm m m') : GRel (LR cm) (getTo cm m) (getTo cm m') := by
  rcases fst_cases (congrArg LView.toV H.2.2) with h | ⟨f, m1, m1', h1, h2⟩
  · exact Or.inl h
  · have hn := (not_routing_keys hD).2.1
    exact Or.inr ⟨f, m1, m1', h1, h2, H.step cm
      (step_to (g := fun r => setFirst cm r toName (.to f)) hD (kept_getTo cm h1) (rest_getTo cm hn h1) (by rw [getTo_idem cm h1, h1]))
      (step_to (g := fun r => setFirst cm r toName (.to f)) hD (kept_getTo cm h2) (rest_getTo cm hn h2) (by rw [getTo_idem cm h2, h2]))⟩

theorem lr_getCSeq {m m' : Message} (H : LR cm m m') : GRel (LR cm) (getCSeq cm m) (getCSeq cm m') := by
  rcases fst_cases (congrArg LView.cseqV H.2.2) with h | ⟨f, m1, m1', h1, h2⟩
  · exact Or.inl h
  · have hn := (not_routing_keys hD).2.2
    exact Or.inr ⟨f, m1, m1', h1, h2, H.step cm
      (step_cseq (g := fun r => setFirst cm r cseqName (.cseq f)) hD (kept_getCSeq cm h1) (rest_getCSeq cm hn h1) (by rw [getCSeq_idem cm h1, h1]))
      (step_cseq (g := fun r => setFirst cm r cseqName (.cseq f)) hD (kept_getCSeq cm h2) (rest_getCSeq cm hn h2) (by rw [getCSeq_idem cm h2, h2]))⟩

theorem lr_popVia {m m' : Message} (H : LR cm m m') : ORel (LR cm) (popVia cm m) (popVia cm m') := by
  have hst : viaStack cm m.headers = viaStack cm m'.headers := congrArg LView.via H.2.2
  have stepOf : ∀ {x x1 : Message}, popVia cm x = some x1 → Step cm (fun a => { a with via := a.via.tail }) x x1 :=
    fun hp => step_via (fv := List.tail) hD (kept_popVia cm hp) (rest_popVia cm hp) (fun hok => popVia_of_viaOK cm hok hp)
  have someOf : ∀ {x : Message}, ViaOK cm x.headers → viaStack cm x.headers ≠ [] → ∃ x1, popVia cm x = some x1 := by
    intro x hok hne
    cases hp : popVia cm x with
    | none => exact absurd (popVia_none_of_viaOK cm hok hp) hne
    | some x1 => exact ⟨x1, rfl⟩
  have noneOf : ∀ {x : Message}, ViaOK cm x.headers → viaStack cm x.headers = [] → popVia cm x = none := by
    intro x hok he
    cases hp : popVia cm x with
    | none => rfl
    | some x1 =>
      have h1 : (getVia cm x).isSome = true := by rw [← popVia_isSome, hp]; rfl
      rcases getVia_of_viaOK cm hok with ⟨h2, _⟩ | ⟨vp, v, m1, rest, _, h3⟩
      · rw [h2] at h1; cases h1
      · rw [he] at h3; cases h3
  by_cases he : viaStack cm m.headers = []
  · exact Or.inl ⟨noneOf H.1.1 he, noneOf H.2.1.1 (hst ▸ he)⟩
  · obtain ⟨m1, h1⟩ := someOf H.1.1 he
    obtain ⟨m1', h2⟩ := someOf H.2.1.1 (hst ▸ he)
    exact Or.inr ⟨m1, m1', h1, h2, H.step cm (stepOf h1) (stepOf h2)⟩

theorem lr_popRoute {m m' : Message} (H : LR cm m m') : ORel (LR cm) (popRoute cm m) (popRoute cm m') := by
  have hst : routeStack cm m.headers = routeStack cm m'.headers := congrArg LView.route H.2.2
  have stepOf : ∀ {x x1 : Message}, popRoute cm x = some x1 → Step cm (fun a => { a with route := a.route.tail }) x x1 :=
    fun hp => step_route (fr := List.tail) hD (kept_popRoute cm hp) (rest_popRoute cm hp)
      (fun hok => popRoute_of_routeOK cm hok hp)
  have isSomeIff : ∀ {x : Message}, RouteOK cm x.headers → ((popRoute cm x).isSome = true ↔ routeStack cm x.headers ≠ []) := by
    intro x hok
    rw [popRoute_isSome]
    rcases getRoute_of_routeOK cm hok with ⟨h2, h3⟩ | ⟨vp, v, m1, rest, h2, h3⟩
    · rw [h2, h3]; simp
    · rw [h2, h3]; simp
  cases h1 : popRoute cm m with
  | none =>
    cases h2 : popRoute cm m' with
    | none => exact Or.inl ⟨rfl, rfl⟩
    | some m1' =>
      have a : routeStack cm m'.headers ≠ [] := (isSomeIff H.2.1.2).mp (by rw [h2]; rfl)
      have b := (isSomeIff H.1.2).mpr (hst ▸ a)
      rw [h1] at b; cases b
  | some m1 =>
    cases h2 : popRoute cm m' with
    | none =>
      have a : routeStack cm m.headers ≠ [] := (isSomeIff H.1.2).mp (by rw [h1]; rfl)
      have b := (isSomeIff H.2.1.2).mpr (hst ▸ a)
      rw [h2] at b; cases b
    | some m1' => exact Or.inr ⟨m1, m1', rfl, rfl, H.step cm (stepOf h1) (stepOf h2)⟩

/-- the Via stack after `SetReceived`: its head stamped -/
def stampHead (ip : Bytes) (port : Int) : List ViaParam → List ViaParam
  | [] => []
  | vp :: t => stampReceived vp ip port :: t

omit hD in
theorem own_setReceived (m : Message) (ip : Bytes) (port : Int) (hok : ViaOK cm m.headers) :
    ViaOK cm (setReceived cm m ip port).headers ∧
    viaStack cm (setReceived cm m ip port).headers = stampHead ip port (viaStack cm m.headers) := by
  rcases getVia_of_viaOK cm hok with ⟨h1, h2⟩ | ⟨vp, v, m1, rest, h1, h2⟩
  · rw [setReceived_of_none cm ip port h1, h2]
    exact ⟨hok, rfl⟩
  · constructor
    · rw [setReceived_of_cons cm ip port h1]
      exact viaOK_setFirst cm hok _ (by simp)
    · rw [viaStack_setReceived, h1, h2]
      rfl

theorem lr_setReceived {m m' : Message} (H : LR cm m m') (ip : Bytes) (port : Int) :
    LR cm (setReceived cm m ip port) (setReceived cm m' ip port) :=
  H.step cm (step_via (fv := stampHead ip port) hD (kept_setReceived cm m ip port) (rest_setReceived cm m ip port)
      (own_setReceived m ip port))
    (step_via (fv := stampHead ip port) hD (kept_setReceived cm m' ip port) (rest_setReceived cm m' ip port)
      (own_setReceived m' ip port))

theorem lr_addVia {m m' : Message} (H : LR cm m m') (vp : ViaParam) : LR cm (addVia cm m vp) (addVia cm m' vp) := by
  have own : ∀ x : Message, ViaOK cm x.headers →
      ViaOK cm (addVia cm x vp).headers ∧ viaStack cm (addVia cm x vp).headers = vp :: viaStack cm x.headers :=
    fun x hok => ⟨viaOK_insertAt cm hok _ rfl (by simp), viaStack_addVia cm x vp⟩
  exact H.step cm (step_via (fv := fun s => vp :: s) hD (kept_addVia cm m vp) (rest_addVia cm m vp) (own m))
    (step_via (fv := fun s => vp :: s) hD (kept_addVia cm m' vp) (rest_addVia cm m' vp) (own m'))

theorem lr_addRecordRoute {m m' : Message} (H : LR cm m m') (rr : RouteParam) :
    LR cm (addRecordRoute cm m rr) (addRecordRoute cm m' rr) := by
  have own : ∀ x : Message, rrStack cm (addRecordRoute cm x rr).headers = rr :: rrStack cm x.headers ∧
      (findHeader cm (addRecordRoute cm x rr).headers recordRouteName).isSome =
        (fun _ => true) (findHeader cm x.headers recordRouteName).isSome :=
    fun x => ⟨rrStack_addRecordRoute cm x rr,
      findHeader_insertAt_isSome cm _ _ _ _ (isSameHeader_refl cm recordRouteName)⟩
  exact H.step cm (step_rr (frr := fun s => rr :: s) (fp := fun _ => true) hD (kept_addRecordRoute cm m rr)
      (rest_addRecordRoute cm m rr) (own m))
    (step_rr (frr := fun s => rr :: s) (fp := fun _ => true) hD (kept_addRecordRoute cm m' rr)
      (rest_addRecordRoute cm m' rr) (own m'))

theorem lr_forEachVia {m m' : Message} (H : LR cm m m') :
    (forEachViaHeaders cm m.headers).2 = (forEachViaHeaders cm m'.headers).2 ∧
    LR cm { m with headers := (forEachViaHeaders cm m.headers).1 } { m' with headers := (forEachViaHeaders cm m'.headers).1 } := by
  have hst : viaStack cm m.headers = viaStack cm m'.headers := congrArg LView.via H.2.2
  refine ⟨by rw [forEachViaHeaders_vias, forEachViaHeaders_vias, hst], ?_⟩
  have own : ∀ x : Message, ViaOK cm x.headers →
      ViaOK cm (forEachViaHeaders cm x.headers).1 ∧
      viaStack cm (forEachViaHeaders cm x.headers).1 = id (viaStack cm x.headers) :=
    fun x hok => ⟨viaOK_forEachVia cm hok, viaStack_forEachViaHeaders cm x.headers⟩
  exact H.step cm (step_via (fv := id) hD (kept_forEachVia cm m) (restOf_forEachVia cm m.headers) (own m))
    (step_via (fv := id) hD (kept_forEachVia cm m') (restOf_forEachVia cm m'.headers) (own m'))

/-- `LR` is respected by every primitive header operation of the pipeline -/
theorem pipeRel_layout : PipeRel (LR cm) cm where
  start H := congrArg LView.start H.2.2
  getVia H := lr_getVia hD H
  getRoute H := lr_getRoute hD H
  getFrom H := lr_getFrom hD H
  getTo H := lr_getTo hD H
  getCSeq H := lr_getCSeq hD H
  rawCallId H := congrArg LView.callId H.2.2
  rawExpires H := congrArg LView.expires H.2.2
  rawSubst H := congrArg LView.subst H.2.2
  popVia H := lr_popVia hD H
  popRoute H := lr_popRoute hD H
  setReceived H ip port := lr_setReceived hD H ip port
  addVia H vp := lr_addVia hD H vp
  addRecordRoute H rr := lr_addRecordRoute hD H rr
  rrPresent H := congrArg LView.rrP H.2.2
  forEachVia H := lr_forEachVia hD H

end Instance

/-! ### split / join of one header gives `LR`-related messages -/

section Split
variable {cm : List (Bytes × Bytes)} (hD : AllDisj cm)

omit hD in
theorem classView_split_other (n : Bytes) (pre post : List Header) (h h₁ h₂ : Header)
    (c : isSameHeader cm h.name n = false) (c₁ : isSameHeader cm h₁.name n = false)
    (c₂ : isSameHeader cm h₂.name n = false) :
    classView cm n (pre ++ h :: post) = classView cm n (pre ++ h₁ :: h₂ :: post) := by
  simp [classView, List.filter_append, c, c₁, c₂]

omit hD in
theorem restOf_split (pre post : List Header) (h h₁ h₂ : Header)
    (c : routing cm h.name = true) (c₁ : routing cm h₁.name = true) (c₂ : routing cm h₂.name = true) :
    restOf cm (pre ++ h₁ :: h₂ :: post) = restOf cm (pre ++ h :: post) := by
  simp [restOf, List.filter_append, c, c₁, c₂]

omit hD in
/-- one header of class `X` replaced by two of class `X`: nothing of the other classes changes -/
theorem kept_split (X : Bytes) (sl : StartLine) (body : Bytes) (pre post : List Header) (h h₁ h₂ : Header)
    (c : isSameHeader cm h.name X = true) (c₁ : isSameHeader cm h₁.name X = true)
    (c₂ : isSameHeader cm h₂.name X = true) :
    Kept cm X { start := sl, headers := pre ++ h :: post, body := body }
      { start := sl, headers := pre ++ h₁ :: h₂ :: post, body := body } :=
  ⟨rfl, rfl, fun n d => (classView_split_other n pre post h h₁ h₂ (d _ c) (d _ c₁) (d _ c₂)).symm⟩

include hD

/-- `Via: a,b` against `Via: a` / `Via: b` (any spellings of the class), both parts decodable -/
theorem lr_split_via (sl : StartLine) (body : Bytes) (pre post : List Header) (nm nm₁ nm₂ a b : Bytes)
    {x y : List ViaParam} (ha : parseVia a = some x) (hb : parseVia b = some y)
    (c : isSameHeader cm nm viaName = true) (c₁ : isSameHeader cm nm₁ viaName = true)
    (c₂ : isSameHeader cm nm₂ viaName = true)
    (hok : LOK cm { start := sl, headers := pre ++ { name := nm, value := .raw (a ++ [44] ++ b) } :: post, body := body }) :
    LR cm { start := sl, headers := pre ++ { name := nm, value := .raw (a ++ [44] ++ b) } :: post, body := body }
      { start := sl, headers := pre ++ { name := nm₁, value := .raw a } :: { name := nm₂, value := .raw b } :: post,
        body := body } := by
  have s := step_via (fv := id) hD (kept_split viaName sl body pre post
      { name := nm, value := .raw (a ++ [44] ++ b) } { name := nm₁, value := .raw a } { name := nm₂, value := .raw b } c c₁ c₂)
    (restOf_split pre post _ _ _ (routing_via cm c) (routing_via cm c₁) (routing_via cm c₂))
    (fun hv => ⟨viaOK_split cm pre post nm nm₁ nm₂ a b ha hb hv,
      (viaStack_split cm pre post nm nm₁ nm₂ a b ha hb (by rw [c₁, c]) (by rw [c₂, c])).symm⟩)
  obtain ⟨ok', e⟩ := s hok
  exact ⟨hok, ok', e.symm⟩

/-- `Route: a,b` against `Route: a` / `Route: b` -/
theorem lr_split_route (sl : StartLine) (body : Bytes) (pre post : List Header) (nm nm₁ nm₂ a b : Bytes)
    {x y : List RouteParam} (ha : parseRoute a = some x) (hb : parseRoute b = some y)
    (c : isSameHeader cm nm routeName = true) (c₁ : isSameHeader cm nm₁ routeName = true)
    (c₂ : isSameHeader cm nm₂ routeName = true)
    (hok : LOK cm { start := sl, headers := pre ++ { name := nm, value := .raw (a ++ [44] ++ b) } :: post, body := body }) :
    LR cm { start := sl, headers := pre ++ { name := nm, value := .raw (a ++ [44] ++ b) } :: post, body := body }
      { start := sl, headers := pre ++ { name := nm₁, value := .raw a } :: { name := nm₂, value := .raw b } :: post,
        body := body } := by
  have s := step_route (fr := id) hD (kept_split routeName sl body pre post
      { name := nm, value := .raw (a ++ [44] ++ b) } { name := nm₁, value := .raw a } { name := nm₂, value := .raw b } c c₁ c₂)
    (restOf_split pre post _ _ _ (routing_route cm c) (routing_route cm c₁) (routing_route cm c₂))
    (fun hv => ⟨routeOK_split cm pre post nm nm₁ nm₂ a b ha hb hv,
      (routeStack_split cm pre post nm nm₁ nm₂ a b ha hb (by rw [c₁, c]) (by rw [c₂, c])).symm⟩)
  obtain ⟨ok', e⟩ := s hok
  exact ⟨hok, ok', e.symm⟩

/-- `Record-Route: a,b` against `Record-Route: a` / `Record-Route: b` -/
theorem lr_split_rr (sl : StartLine) (body : Bytes) (pre post : List Header) (nm nm₁ nm₂ a b : Bytes)
    {x y : List RouteParam} (ha : parseRoute a = some x) (hb : parseRoute b = some y)
    (c : isSameHeader cm nm recordRouteName = true) (c₁ : isSameHeader cm nm₁ recordRouteName = true)
    (c₂ : isSameHeader cm nm₂ recordRouteName = true)
    (hok : LOK cm { start := sl, headers := pre ++ { name := nm, value := .raw (a ++ [44] ++ b) } :: post, body := body }) :
    LR cm { start := sl, headers := pre ++ { name := nm, value := .raw (a ++ [44] ++ b) } :: post, body := body }
      { start := sl, headers := pre ++ { name := nm₁, value := .raw a } :: { name := nm₂, value := .raw b } :: post,
        body := body } := by
  have s := step_rr (frr := id) (fp := id) hD (kept_split recordRouteName sl body pre post
      { name := nm, value := .raw (a ++ [44] ++ b) } { name := nm₁, value := .raw a } { name := nm₂, value := .raw b } c c₁ c₂)
    (restOf_split pre post _ _ _ (routing_rr cm c) (routing_rr cm c₁) (routing_rr cm c₂))
    ⟨(rrStack_split cm pre post nm nm₁ nm₂ a b ha hb (by rw [c₁, c]) (by rw [c₂, c])).symm, by
      simp only [findHeader, List.find?_append, List.find?_cons, c, c₁, id]
      cases List.find? (fun h => isSameHeader cm h.name recordRouteName) pre <;> rfl⟩
  obtain ⟨ok', e⟩ := s hok
  exact ⟨hok, ok', e.symm⟩

end Split

section Trans
variable {cm : List (Bytes × Bytes)}

theorem LR.trans {a b c : Message} (h : LR cm a b) (k : LR cm b c) : LR cm a c := ⟨h.1, k.2.1, h.2.2.trans k.2.2⟩

end Trans

/-- One received message, two layouts: equal states, equal destinations, payloads that are
serialisations of messages with the same `lview` (start line, body, the three stacks, …). -/
theorem step_layout (cfg : Cfg) (hD : AllDisj cfg.cm) {ev ev' : RawEv} (E : EvRel (LR cfg.cm) ev ev') (st : St) :
    SRG (LR cfg.cm) cfg (step cfg st ev) (step cfg st ev') :=
  step_rel cfg (pipeRel_layout hD) E st

theorem real_allDisj : AllDisj realCm := allDisj_of_sane realCm real_sane

/-! ### non-vacuity: the fixtures of `Lemmas.Pipe`, re-laid out

A response with the Via headers `own` and `a,b` against the same with three Via lines; a request with
`Route: p1,p2` against two Route lines. Both pairs are `LR`-related, are really processed (one packet
each), and so every theorem of this file and of `Lemmas.PipeRel` has a non-trivial instance. -/

section Examples

def lyOwn : Bytes := str "SIP/2.0/UDP 10.0.0.1:5060;branch=z9hG4bKabc"
def lyA : Bytes := str "SIP/2.0/UDP a:5070;received=10.0.0.7;rport=4444;branch=z1"
def lyB : Bytes := str "SIP/2.0/TCP b"
def lyPre : List Header := [{ name := str "Via", value := .raw lyOwn }]
def lyPost : List Header := [{ name := str "CSeq", value := .raw (str "1 INVITE") }]

def lyRespJ : Message :=
  { start := .status (str "SIP/2.0") 200 (str "OK"), body := [],
    headers := lyPre ++ { name := str "v", value := .raw (lyA ++ [44] ++ lyB) } :: lyPost }

def lyRespS : Message :=
  { start := .status (str "SIP/2.0") 200 (str "OK"), body := [],
    headers := lyPre ++ { name := str "Via", value := .raw lyA } :: { name := str "VIA", value := .raw lyB } :: lyPost }

theorem ly_parts : ∃ x y, parseVia lyA = some x ∧ parseVia lyB = some y := by
  obtain ⟨x, hx⟩ := Option.isSome_iff_exists.mp (show (parseVia lyA).isSome = true by decide +kernel)
  obtain ⟨y, hy⟩ := Option.isSome_iff_exists.mp (show (parseVia lyB).isSome = true by decide +kernel)
  exact ⟨x, y, hx, hy⟩

theorem lyResp_LR : LR realCm lyRespJ lyRespS := by
  obtain ⟨x, y, hx, hy⟩ := ly_parts
  exact lr_split_via real_allDisj _ _ lyPre lyPost (str "v") (str "Via") (str "VIA") lyA lyB hx hy
    (by decide +kernel) (by decide +kernel) (by decide +kernel)
    ⟨viaOK_of_check realCm (by decide +kernel), routeOK_of_check realCm (by decide +kernel)⟩

def lyReqJ : Message :=
  { start := exMsg.start, body := [],
    headers := [] ++ { name := str "Route", value := .raw (exRouteA ++ [44] ++ exRouteB) } :: exMsgNoRoute.headers }

def lyReqS : Message :=
  { start := exMsg.start, body := [],
    headers := [] ++ { name := str "Route", value := .raw exRouteA } :: { name := str "ROUTE", value := .raw exRouteB } ::
      exMsgNoRoute.headers }

theorem lyReq_LR : LR realCm lyReqJ lyReqS := by
  obtain ⟨x, y, hx, hy⟩ := exRoute_parts
  exact lr_split_route real_allDisj _ _ [] exMsgNoRoute.headers (str "Route") (str "Route") (str "ROUTE")
    exRouteA exRouteB hx hy (by decide +kernel) (by decide +kernel) (by decide +kernel)
    ⟨viaOK_of_check realCm (by decide +kernel), routeOK_of_check realCm (by decide +kernel)⟩

example := step_layout exCfg real_allDisj (EvRel.of_msg (exEv lyRespJ) (show LR exCfg.cm lyRespJ lyRespS from lyResp_LR)) exSt
example := step_layout exCfg real_allDisj (EvRel.of_msg (exEv lyReqJ) (show LR exCfg.cm lyReqJ lyReqS from lyReq_LR)) exSt

/-- both layouts are really relayed: one packet each, to the same destination, different bytes -/
example :
    (step exCfg exSt (exEv lyRespJ)).2.length = 1 ∧ (step exCfg exSt (exEv lyRespS)).2.length = 1 ∧
    (step exCfg exSt (exEv lyRespJ)).2.map Out.dest = (step exCfg exSt (exEv lyRespS)).2.map Out.dest ∧
    (step exCfg exSt (exEv lyRespJ)).2 ≠ (step exCfg exSt (exEv lyRespS)).2 ∧
    (step exCfg exSt (exEv lyReqJ)).2.length = 1 ∧ (step exCfg exSt (exEv lyReqS)).2.length = 1 ∧
    (step exCfg exSt (exEv lyReqJ)).2 ≠ (step exCfg exSt (exEv lyReqS)).2 := by decide +kernel

end Examples

end Lemmas
