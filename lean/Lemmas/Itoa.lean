/-
Lemmas.Itoa — `strconv.Itoa` is injective and prints only '-' and digits.
-/
import Lemmas.Num
open GoStd

namespace Lemmas

theorem natToBytes_injective (n m : Nat) (h : natToBytes n = natToBytes m) : n = m := by
  have h1 := (natToBytes_spec n).2.2
  have h2 := (natToBytes_spec m).2.2
  rw [h] at h1
  omega

/-- a printed natural number starts with a digit -/
theorem natToBytes_head (n : Nat) : ∃ d ds, natToBytes n = d :: ds ∧ 48 ≤ d ∧ d ≤ 57 := by
  cases hx : natToBytes n with
  | nil => exact absurd hx (natToBytes_spec n).2.1
  | cons d ds =>
    have := natToBytes_digits n d (by rw [hx]; simp)
    exact ⟨d, ds, rfl, this⟩

theorem itoa_injective (i j : Int) (h : itoa i = itoa j) : i = j := by
  cases i with
  | ofNat n =>
    cases j with
    | ofNat m => simp only [itoa] at h; rw [natToBytes_injective n m h]
    | negSucc m =>
      simp only [itoa] at h
      obtain ⟨d, ds, hd, h1, _⟩ := natToBytes_head n
      rw [hd] at h
      simp only [List.cons.injEq] at h
      rw [h.1] at h1
      exact absurd h1 (by decide)
  | negSucc n =>
    cases j with
    | ofNat m =>
      simp only [itoa] at h
      obtain ⟨d, ds, hd, h1, _⟩ := natToBytes_head m
      rw [hd] at h
      simp only [List.cons.injEq] at h
      rw [← h.1] at h1
      exact absurd h1 (by decide)
    | negSucc m =>
      simp only [itoa, List.cons.injEq, true_and] at h
      have := natToBytes_injective _ _ h
      have : n = m := by omega
      rw [this]

/-- a printed int consists of '-' and digits -/
theorem itoa_bytes (i : Int) : ∀ b ∈ itoa i, b = 45 ∨ (48 ≤ b ∧ b ≤ 57) := by
  intro b hb
  cases i with
  | ofNat n => exact Or.inr (natToBytes_digits n b hb)
  | negSucc n =>
    simp only [itoa, List.mem_cons] at hb
    rcases hb with rfl | hb
    · exact Or.inl rfl
    · exact Or.inr (natToBytes_digits _ b hb)

theorem itoa_no_colon (i : Int) : (58 : UInt8) ∉ itoa i := by
  intro h
  rcases itoa_bytes i 58 h with h | h
  · exact absurd h (by decide)
  · exact absurd h.2 (by decide)

theorem itoa_no_at (i : Int) : (64 : UInt8) ∉ itoa i := by
  intro h
  rcases itoa_bytes i 64 h with h | h
  · exact absurd h (by decide)
  · exact absurd h.2 (by decide)

theorem itoa_ne_nil (i : Int) : itoa i ≠ [] := by
  cases i with
  | ofNat n => exact (natToBytes_spec n).2.1
  | negSucc n => simp [itoa]

end Lemmas
