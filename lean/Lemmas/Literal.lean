/-
Lemmas.Literal — From, To and CSeq values are written back literally: the decoded value keeps the text it
was decoded from (`text` in from_spec.go, to.go, cseq.go) and `String()` prints that text. Core Lean only.
-/
import Sip.Codec
open GoStd Sip

namespace Lemmas

/-! ### From / To / CSeq are written back literally -/

/-- the empty text decodes as the empty absolute URI (`ParseAddrSpec("")` succeeds) -/
theorem parseFromToCore_nil :
    parseFromToCore [] = some { nameAddr := none, addrSpec := some (.abs []), params := [] } := by
  have h1 : hasPrefix sipPrefix [] = false := by decide +kernel
  have h2 : hasPrefix sipsPrefix [] = false := by decide +kernel
  simp [parseFromToCore, cut, parseAddrSpec, h1, h2]

/-- Whatever text decodes as a From / To value is what the decoded value prints. No domain. -/
theorem parseFromTo_encode {s : Bytes} {f : FromTo} (h : parseFromTo s = some f) : f.encode = s := by
  unfold parseFromTo at h
  cases hc : parseFromToCore s with
  | none => simp [hc] at h
  | some g =>
    simp only [hc, Option.map_some, Option.some.injEq] at h
    subst h
    by_cases hs : s = []
    · subst hs
      rw [parseFromToCore_nil] at hc
      simp only [Option.some.injEq] at hc
      subst hc
      simp [FromTo.encode, FromTo.encodeCore, AddrSpec.encode, encodeSemiParams]
    · simp [FromTo.encode, hs]

/-- decoding keeps the accessors of the structure -/
theorem parseFromTo_core {s : Bytes} {g : FromTo} (h : parseFromToCore s = some g) :
    parseFromTo s = some { g with text := s } := by
  simp [parseFromTo, h]

/-- Whatever text decodes as a CSeq value is what the decoded value prints. No domain. -/
theorem parseCSeq_encode {s : Bytes} {c : CSeq} (h : parseCSeq s = some c) : c.encode = s := by
  unfold parseCSeq at h
  split at h
  · rename_i n m hf
    cases ha : atoi n with
    | none => simp [ha] at h
    | some i =>
      simp only [ha, Option.map_some, Option.some.injEq] at h
      subst h
      have hs : s ≠ [] := by
        intro hnil
        rw [hnil, show fields ([] : Bytes) = [] by decide] at hf
        exact absurd hf (by simp)
      simp [CSeq.encode, hs]
  · exact absurd h (by simp)

/-! ### a CSeq method is one word: it holds no blank -/

theorem spaceTokLen_zero_ne_blank (b : UInt8) (rest : Bytes) (h : spaceTokLen (b :: rest) = 0) : b ≠ 32 := by
  intro hb
  subst hb
  simp [spaceTokLen, isAsciiSpace] at h

theorem fieldsAux_no_blank (fuel : Nat) (s cur : Bytes) (hc : (32 : UInt8) ∉ cur) :
    ∀ f ∈ fieldsAux fuel s cur, (32 : UInt8) ∉ f := by
  induction fuel generalizing s cur with
  | zero =>
    intro f hf
    simp only [fieldsAux] at hf
    split at hf
    · simp at hf
    · simp only [List.mem_singleton] at hf; subst hf; simpa using hc
  | succ n ih =>
    intro f hf
    cases s with
    | nil =>
      simp only [fieldsAux] at hf
      split at hf
      · simp at hf
      · simp only [List.mem_singleton] at hf; subst hf; simpa using hc
    | cons b rest =>
      simp only [fieldsAux] at hf
      split at hf
      · rename_i hk
        exact ih rest (b :: cur) (by
          simp only [List.mem_cons, not_or]
          exact ⟨fun e => spaceTokLen_zero_ne_blank b rest hk e.symm, hc⟩) f hf
      · split at hf
        · exact ih _ [] (by simp) f hf
        · simp only [List.mem_cons] at hf
          rcases hf with rfl | hf
          · simpa using hc
          · exact ih _ [] (by simp) f hf

theorem fields_no_blank (s : Bytes) : ∀ f ∈ fields s, (32 : UInt8) ∉ f :=
  fieldsAux_no_blank _ s [] (by simp)

theorem parseCSeq_method_no_blank {s : Bytes} {c : CSeq} (h : parseCSeq s = some c) : (32 : UInt8) ∉ c.method := by
  unfold parseCSeq at h
  split at h
  · rename_i n m hf
    cases ha : atoi n with
    | none => simp [ha] at h
    | some i =>
      simp only [ha, Option.map_some, Option.some.injEq] at h
      subst h
      exact fields_no_blank s m (by rw [hf]; simp)
  · exact absurd h (by simp)
end Lemmas
