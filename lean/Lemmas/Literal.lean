/-
Lemmas.Literal — From, To and CSeq values are written back literally: the decoded value keeps the text it
was decoded from (`text` in from_spec.go, to.go, cseq.go) and `String()` prints that text. Core Lean only.
-/
import Sip.Codec
open GoStd Sip

namespace Lemmas

/-! ### From / To / CSeq are written back literally -/

/-- the empty text decodes as the empty absolute URI (`ParseAddrSpec("")` succeeds) -/
theorem parseFromToCore_nil :
    parseFromToCore [] = some { nameAddr := none, addrSpec := some (.abs []), params := [] } := by
  have h1 : hasPrefix sipPrefix [] = false := by decide +kernel
  have h2 : hasPrefix sipsPrefix [] = false := by decide +kernel
  simp [parseFromToCore, cut, parseAddrSpec, h1, h2]

/-- Whatever text decodes as a From / To value is what the decoded value prints. No domain. -/
theorem parseFromTo_encode {s : Bytes} {f : FromTo} (h : parseFromTo s = some f) : f.encode = s := by
  unfold parseFromTo at h
  cases hc : parseFromToCore s with
  | none => simp [hc] at h
  | some g =>
    simp only [hc, Option.map_some, Option.some.injEq] at h
    subst h
    by_cases hs : s = []
    · subst hs
      rw [parseFromToCore_nil] at hc
      simp only [Option.some.injEq] at hc
      subst hc
      simp [FromTo.encode, FromTo.encodeCore, AddrSpec.encode, encodeSemiParams]
    · simp [FromTo.encode, hs]

/-- decoding keeps the accessors of the structure -/
theorem parseFromTo_core {s : Bytes} {g : FromTo} (h : parseFromToCore s = some g) :
    parseFromTo s = some { g with text := s } := by
  simp [parseFromTo, h]

/-- Whatever text decodes as a CSeq value is what the decoded value prints. No domain. -/
theorem parseCSeq_encode {s : Bytes} {c : CSeq} (h : parseCSeq s = some c) : c.encode = s := by
  unfold parseCSeq at h
  split at h
  · rename_i n m hf
    cases ha : atoi n with
    | none => simp [ha] at h
    | some i =>
      simp only [ha, Option.map_some, Option.some.injEq] at h
      subst h
      have hs : s ≠ [] := by
        intro hnil
        rw [hnil, show fields ([] : Bytes) = [] by decide] at hf
        exact absurd hf (by simp)
      simp [CSeq.encode, hs]
  · exact absurd h (by simp)

end Lemmas
