/-
Lemmas.Message — framing laws of `Sip.parseMessage`: a renderer for well-formed messages
(`render`), the domain predicate `WF`, and `parse_render` (parse ∘ render = id, with the exact
remaining input), plus the size bounds used by C08. Core Lean only.
-/
import Sip.Message
import Lemmas.Bytes
import Lemmas.Num
open GoStd Sip

namespace Lemmas

/-! ### the renderer -/

/-- header lines `name: value<eol>` -/
def renderHeaders (eol : Bytes) : List (Bytes × Bytes) → Bytes
  | [] => []
  | h :: hs => h.1 ++ [58, 32] ++ h.2 ++ eol ++ renderHeaders eol hs

/-- start line, header lines, blank line, body; `eol` is CRLF or a bare LF -/
def render (eol start : Bytes) (hs : List (Bytes × Bytes)) (body : Bytes) : Bytes :=
  start ++ eol ++ renderHeaders eol hs ++ eol ++ body

/-- the header as `parseMessage` stores it: the value still a string -/
def toHeader (h : Bytes × Bytes) : Header := ⟨h.1, .raw h.2⟩

/-- value of the first header of the class of `name` -/
def firstValue (cm : List (Bytes × Bytes)) (hs : List (Bytes × Bytes)) (name : Bytes) : Option Bytes :=
  (hs.find? (fun h => isSameHeader cm h.1 name)).map (·.2)

def EolOK (eol : Bytes) : Prop := eol = [13, 10] ∨ eol = [10]

/-- a start line as it stands on the wire: non-empty, no CR/LF, does not begin with white space -/
structure StartOK (start : Bytes) : Prop where
  ne : start ≠ []
  cr : (13 : UInt8) ∉ start
  lf : (10 : UInt8) ∉ start
  head : ∀ b, start.head? = some b → isWhiteSpace b = false

/-- a header as it stands on the wire: name free of ':' CR LF; value free of CR LF and trimmed -/
structure HeaderOK (h : Bytes × Bytes) : Prop where
  name_colon : (58 : UInt8) ∉ h.1
  name_cr : (13 : UInt8) ∉ h.1
  name_lf : (10 : UInt8) ∉ h.1
  val_cr : (13 : UInt8) ∉ h.2
  val_lf : (10 : UInt8) ∉ h.2
  val_trim : trimSpace h.2 = h.2

/-- the domain of `parse_render` -/
structure WF (cm : List (Bytes × Bytes)) (start : Bytes) (sl : StartLine)
    (hs : List (Bytes × Bytes)) (body : Bytes) : Prop where
  start_ok : StartOK start
  start_parse : parseStartLine start = some sl
  headers_ok : ∀ h ∈ hs, HeaderOK h
  /-- the FIRST Content-Length-class header exists and declares exactly the body length -/
  content_length : firstValue cm hs contentLengthName = some (natToBytes body.length)
  body_le : body.length ≤ 9223372036854775807

/-! ### readLine -/

theorem readLine_of_ne_nil (s : Bytes) (h : s ≠ []) :
    readLine s = (match cut 10 s with
      | none => some (s, [])
      | some (l, rest) => if l.getLast? == some 13 then some (l.dropLast, rest) else some (l, rest)) := by
  cases s with
  | nil => exact absurd rfl h
  | cons b bs => rfl

/-- a CR/LF-free line followed by CRLF or LF is read back exactly, and the rest is what follows -/
theorem readLine_eol (eol line more : Bytes) (heol : EolOK eol)
    (hcr : (13 : UInt8) ∉ line) (hlf : (10 : UInt8) ∉ line) :
    readLine (line ++ eol ++ more) = some (line, more) := by
  rcases heol with rfl | rfl
  · have h1 : line ++ [13, 10] ++ more = (line ++ [13]) ++ 10 :: more := by simp
    have h2 : (10 : UInt8) ∉ line ++ [13] := by simp [hlf]
    rw [h1, readLine_of_ne_nil _ (by simp), cut_append_of_not_mem 10 (line ++ [13]) more h2]
    simp
  · have h1 : line ++ [10] ++ more = line ++ 10 :: more := by simp
    rw [h1, readLine_of_ne_nil _ (by simp), cut_append_of_not_mem 10 line more hlf]
    have : line.getLast? ≠ some 13 := fun h => hcr (List.mem_of_getLast? h)
    simp [this]

/-! ### trimSpace in front of a header value -/

theorem trimLeft_space_cons (v : Bytes) : trimLeft (32 :: v) = trimLeft v := by
  simp [trimLeft, trimLeftAux, spaceTokLen, isAsciiSpace]

theorem trimSpace_space_cons (v : Bytes) : trimSpace (32 :: v) = trimSpace v := by
  simp [trimSpace, trimLeft_space_cons]

/-- a byte that cannot begin or end a Go white-space rune: ASCII and not an ASCII blank -/
def Clean (b : UInt8) : Prop := b < 128 ∧ isAsciiSpace b = false

theorem spaceTokLen_clean (b : UInt8) (rest : Bytes) (h : Clean b) : spaceTokLen (b :: rest) = 0 := by
  obtain ⟨h1, h2⟩ := h
  have h' : b.toNat < 128 := by simpa [UInt8.lt_iff_toNat_lt] using h1
  have : b ≠ 0xC2 ∧ b ≠ 0xE1 ∧ b ≠ 0xE2 ∧ b ≠ 0xE3 := by
    refine ⟨?_, ?_, ?_, ?_⟩ <;> (intro e; subst e; simp at h')
  simp [spaceTokLen, h2, this]

theorem spaceTokLenRev_clean (b : UInt8) (rest : Bytes) (h : Clean b) :
    spaceTokLenRev (b :: rest) = 0 := by
  obtain ⟨h1, h2⟩ := h
  have h' : b.toNat < 128 := by simpa [UInt8.lt_iff_toNat_lt] using h1
  have hne : b ≠ 0x85 ∧ b ≠ 0xA0 ∧ b ≠ 0x80 ∧ b ≠ 0xA8 ∧ b ≠ 0xA9 ∧ b ≠ 0xAF ∧ b ≠ 0x9F := by
    refine ⟨?_, ?_, ?_, ?_, ?_, ?_, ?_⟩ <;> (intro e; subst e; simp at h')
  have hge : ¬ (0x80 ≤ b) := by
    simp only [UInt8.le_iff_toNat_le]; simp; omega
  match rest with
  | [] => simp [spaceTokLenRev, h2]
  | [c] => simp [spaceTokLenRev, h2, hne]
  | c :: d :: _ => simp [spaceTokLenRev, h2, hne, hge]

theorem trimLeft_clean (b : UInt8) (rest : Bytes) (h : Clean b) : trimLeft (b :: rest) = b :: rest := by
  simp [trimLeft, trimLeftAux, spaceTokLen_clean b rest h]

theorem trimRight_clean (ys : Bytes) (b : UInt8) (h : Clean b) : trimRight (ys ++ [b]) = ys ++ [b] := by
  simp [trimRight, trimRightRevAux, spaceTokLenRev_clean b _ h]

/-- `strings.TrimSpace` leaves alone the empty string and every string whose first and last bytes
are ASCII non-blanks (a convenient sufficient condition for `HeaderOK.val_trim`) -/
theorem trimSpace_eq_self (v : Bytes)
    (h : v = [] ∨ ((∃ b, v.head? = some b ∧ Clean b) ∧ (∃ b, v.getLast? = some b ∧ Clean b))) :
    trimSpace v = v := by
  rcases h with rfl | ⟨⟨b, hb, hcb⟩, ⟨c, hc, hcc⟩⟩
  · rfl
  · obtain ⟨ys, rfl⟩ := List.getLast?_eq_some_iff.mp hc
    have hl : trimLeft (ys ++ [c]) = ys ++ [c] := by
      cases ys with
      | nil =>
        simp only [List.nil_append, List.head?_cons, Option.some.injEq] at hb
        subst hb
        exact trimLeft_clean _ _ hcb
      | cons y ys =>
        simp only [List.cons_append, List.head?_cons, Option.some.injEq] at hb
        subst hb
        exact trimLeft_clean _ _ hcb
    rw [trimSpace, hl, trimRight_clean ys c hcc]

theorem digit_clean (b : UInt8) (h : 48 ≤ b ∧ b ≤ 57) : Clean b := by
  obtain ⟨h1, h2⟩ := h
  have h1' : 48 ≤ b.toNat := by simpa [UInt8.le_iff_toNat_le] using h1
  have h2' : b.toNat ≤ 57 := by simpa [UInt8.le_iff_toNat_le] using h2
  refine ⟨by simp only [UInt8.lt_iff_toNat_lt]; simp; omega, ?_⟩
  have : b ≠ 9 ∧ b ≠ 10 ∧ b ≠ 11 ∧ b ≠ 12 ∧ b ≠ 13 ∧ b ≠ 32 := by
    refine ⟨?_, ?_, ?_, ?_, ?_, ?_⟩ <;> (intro e; subst e; simp at h1')
  simp [isAsciiSpace, this]

/-- a printed number is a trimmed string -/
theorem trimSpace_natToBytes (n : Nat) : trimSpace (natToBytes n) = natToBytes n := by
  have hd := natToBytes_digits n
  have hne := (natToBytes_spec n).2.1
  apply trimSpace_eq_self
  right
  refine ⟨?_, ?_⟩
  · cases hx : natToBytes n with
    | nil => exact absurd hx hne
    | cons b bs => exact ⟨b, rfl, digit_clean b (hd b (by simp [hx]))⟩
  · cases hx : (natToBytes n).getLast? with
    | none => exact absurd (List.getLast?_eq_none_iff.mp hx) hne
    | some b => exact ⟨b, rfl, digit_clean b (hd b (List.mem_of_getLast? hx))⟩

/-! ### header lines -/

theorem length_le_renderHeaders (eol : Bytes) (hs : List (Bytes × Bytes)) :
    hs.length ≤ (renderHeaders eol hs).length := by
  induction hs with
  | nil => simp
  | cons h hs ih => simp [renderHeaders]; omega

/-- fuel adequacy and exactness of the header loop on rendered headers -/
theorem parseHeaderLines_render (eol : Bytes) (heol : EolOK eol) (hs : List (Bytes × Bytes))
    (hok : ∀ h ∈ hs, HeaderOK h) (more : Bytes) (fuel : Nat) (hf : hs.length < fuel) :
    parseHeaderLines fuel (renderHeaders eol hs ++ eol ++ more) = some (hs.map toHeader, more) := by
  induction hs generalizing fuel with
  | nil =>
    obtain ⟨f, rfl⟩ : ∃ f, fuel = f + 1 := ⟨fuel - 1, by simp at hf; omega⟩
    have := readLine_eol eol [] more heol (by simp) (by simp)
    simp only [List.nil_append] at this
    simp [parseHeaderLines, renderHeaders, this]
  | cons h hs ih =>
    obtain ⟨f, rfl⟩ : ∃ f, fuel = f + 1 := ⟨fuel - 1, by simp at hf; omega⟩
    have hh := hok h (by simp)
    have hline : renderHeaders eol (h :: hs) ++ eol ++ more
        = (h.1 ++ [58, 32] ++ h.2) ++ eol ++ (renderHeaders eol hs ++ eol ++ more) := by
      simp [renderHeaders, List.append_assoc]
    have hcr : (13 : UInt8) ∉ h.1 ++ [58, 32] ++ h.2 := by simp [hh.name_cr, hh.val_cr]
    have hlf : (10 : UInt8) ∉ h.1 ++ [58, 32] ++ h.2 := by simp [hh.name_lf, hh.val_lf]
    have hcut : cut 58 (h.1 ++ [58, 32] ++ h.2) = some (h.1, 32 :: h.2) := by
      have := cut_append_of_not_mem 58 h.1 (32 :: h.2) hh.name_colon
      simpa using this
    have hih := ih (fun x hx => hok x (by simp [hx])) f (by simp at hf; omega)
    rw [hline]
    simp only [parseHeaderLines, readLine_eol eol _ _ heol hcr hlf]
    have hlen : ¬ (h.1 ++ [58, 32] ++ h.2).length = 0 := by simp
    simp only [hlen, ↓reduceIte, hcut, hih, trimSpace_space_cons, hh.val_trim, List.map_cons, toHeader]

/-! ### Content-Length lookup on still-undecoded headers -/

theorem getRawHeader_map (cm : List (Bytes × Bytes)) (sl : StartLine) (hs : List (Bytes × Bytes))
    (body name : Bytes) :
    getRawHeader cm ⟨sl, hs.map toHeader, body⟩ name = firstValue cm hs name := by
  simp only [getRawHeader, findHeader, firstValue, List.find?_map]
  cases hf : List.find? ((fun h => isSameHeader cm h.name name) ∘ toHeader) hs with
  | none =>
    have : List.find? (fun h => isSameHeader cm h.1 name) hs = none := hf
    simp [this]
  | some h =>
    have : List.find? (fun h => isSameHeader cm h.1 name) hs = some h := hf
    simp [this, toHeader]

theorem getHeaderInt_map (cm : List (Bytes × Bytes)) (sl : StartLine) (hs : List (Bytes × Bytes))
    (body name : Bytes) :
    getHeaderInt cm ⟨sl, hs.map toHeader, body⟩ name = (firstValue cm hs name).bind atoi := by
  simp only [getHeaderInt, getRawHeader_map]
  cases firstValue cm hs name <;> rfl

/-! ### skipWhiteSpace -/

theorem skipWhiteSpace_append (ws s : Bytes) (hws : ∀ b ∈ ws, isWhiteSpace b = true) :
    skipWhiteSpace (ws ++ s) = skipWhiteSpace s := by
  induction ws with
  | nil => rfl
  | cons b bs ih =>
    have hb := hws b (by simp)
    simp only [skipWhiteSpace, List.cons_append, List.dropWhile_cons, hb, ↓reduceIte]
    exact ih (fun x hx => hws x (by simp [hx]))

theorem skipWhiteSpace_start (start more : Bytes) (h : StartOK start) :
    skipWhiteSpace (start ++ more) = start ++ more := by
  cases start with
  | nil => exact absurd rfl h.ne
  | cons b bs =>
    have hb := h.head b rfl
    simp [skipWhiteSpace, hb]

/-! ### the whole parser on rendered input -/

/-- What `parseMessage` computes on `white space ++ start line ++ rendered headers ++ blank line ++
tail`: everything is decided by the start line, the first Content-Length-class header and the
number of bytes after the blank line. -/
theorem parseMessage_render_gen (cm : List (Bytes × Bytes)) (eol start : Bytes)
    (hs : List (Bytes × Bytes)) (heol : EolOK eol) (hst : StartOK start)
    (hhs : ∀ h ∈ hs, HeaderOK h) (ws tail : Bytes) (hws : ∀ b ∈ ws, isWhiteSpace b = true) :
    parseMessage cm (ws ++ (start ++ eol ++ renderHeaders eol hs ++ eol ++ tail)) =
      (match parseStartLine start with
       | none => .error
       | some sl =>
         match (firstValue cm hs contentLengthName).bind atoi with
         | none => .error
         | some cl =>
           if cl < 0 then .error
           else if tail.length < cl.toNat then .error
           else .ok ⟨sl, hs.map toHeader, tail.take cl.toNat⟩ (tail.drop cl.toNat)) := by
  have hshape : start ++ eol ++ renderHeaders eol hs ++ eol ++ tail
      = start ++ eol ++ (renderHeaders eol hs ++ eol ++ tail) := by simp [List.append_assoc]
  have hskip : skipWhiteSpace (ws ++ (start ++ eol ++ renderHeaders eol hs ++ eol ++ tail))
      = start ++ eol ++ (renderHeaders eol hs ++ eol ++ tail) := by
    rw [skipWhiteSpace_append _ _ hws, hshape, List.append_assoc start, skipWhiteSpace_start _ _ hst]
  have hlen : ¬ start.length = 0 := by
    cases start with
    | nil => exact absurd rfl hst.ne
    | cons _ _ => simp
  have hfuel : hs.length < (renderHeaders eol hs ++ eol ++ tail).length + 1 := by
    have := length_le_renderHeaders eol hs
    simp only [List.length_append]; omega
  unfold parseMessage
  simp only [hskip, readLine_eol eol start _ heol hst.cr hst.lf, hlen, ↓reduceIte]
  cases parseStartLine start with
  | none => rfl
  | some sl =>
    simp only [parseHeaderLines_render eol heol hs hhs tail _ hfuel, getHeaderInt_map]
    cases (firstValue cm hs contentLengthName).bind atoi <;> rfl

/-- `parse_render`: a well-formed message is parsed back exactly — start line, every header with
its exact value, the body as declared — and the remaining input is exactly what followed it. -/
theorem parse_render_ws (cm : List (Bytes × Bytes)) (eol start : Bytes) (sl : StartLine)
    (hs : List (Bytes × Bytes)) (body : Bytes) (heol : EolOK eol) (h : WF cm start sl hs body)
    (ws rest : Bytes) (hws : ∀ b ∈ ws, isWhiteSpace b = true) :
    parseMessage cm (ws ++ (render eol start hs body ++ rest))
      = .ok ⟨sl, hs.map toHeader, body⟩ rest := by
  have hshape : render eol start hs body ++ rest
      = start ++ eol ++ renderHeaders eol hs ++ eol ++ (body ++ rest) := by
    simp [render, List.append_assoc]
  rw [hshape, parseMessage_render_gen cm eol start hs heol h.start_ok h.headers_ok ws _ hws,
    h.start_parse, h.content_length]
  simp only [Option.bind_some, atoi_natToBytes _ h.body_le]
  have h1 : ¬ ((Int.ofNat body.length) < 0) := Int.not_lt.mpr (Int.natCast_nonneg _)
  have h2 : ¬ ((body ++ rest).length < (Int.ofNat body.length).toNat) := by simp
  simp only [h1, h2, ↓reduceIte]
  simp

theorem parse_render (cm : List (Bytes × Bytes)) (eol start : Bytes) (sl : StartLine)
    (hs : List (Bytes × Bytes)) (body : Bytes) (heol : EolOK eol) (h : WF cm start sl hs body)
    (rest : Bytes) :
    parseMessage cm (render eol start hs body ++ rest)
      = .ok { start := sl, headers := hs.map (fun h => ⟨h.1, .raw h.2⟩), body := body } rest := by
  exact parse_render_ws cm eol start sl hs body heol h [] rest (by simp)

/-- `k` keep-alive CRLFs -/
def keepAlives (k : Nat) : Bytes := (List.replicate k crlf).flatten

theorem keepAlives_white (k : Nat) : ∀ b ∈ keepAlives k, isWhiteSpace b = true := by
  intro b hb
  simp only [keepAlives, List.mem_flatten, List.mem_replicate] at hb
  obtain ⟨l, ⟨_, rfl⟩, hb⟩ := hb
  simp only [crlf, List.mem_cons, List.not_mem_nil, or_false] at hb
  rcases hb with rfl | rfl <;> decide

/-- the variant with `k` keep-alive CRLFs in front of the message -/
theorem parse_render_keepAlive (cm : List (Bytes × Bytes)) (eol start : Bytes) (sl : StartLine)
    (hs : List (Bytes × Bytes)) (body : Bytes) (heol : EolOK eol) (h : WF cm start sl hs body)
    (k : Nat) (rest : Bytes) :
    parseMessage cm (keepAlives k ++ (render eol start hs body ++ rest))
      = .ok ⟨sl, hs.map toHeader, body⟩ rest :=
  parse_render_ws cm eol start sl hs body heol h _ rest (keepAlives_white k)

/-! ### what the proxy itself writes (`Message.bytes`) is a rendered message -/

/-- the first line without its CRLF -/
def startLineBytes : StartLine → Bytes
  | .request method uri version => method ++ [32] ++ uri.encode ++ [32] ++ version
  | .status version code reason => version ++ [32] ++ itoa code ++ [32] ++ reason

theorem encodeFirstLine_eq (sl : StartLine) : encodeFirstLine sl = startLineBytes sl ++ crlf := by
  cases sl <;> simp [encodeFirstLine, startLineBytes]

/-- the headers `Bytes()` writes from the list: all but the Content-Length class, values encoded -/
def keptHeaders (cm : List (Bytes × Bytes)) (hs : List Header) : List (Bytes × Bytes) :=
  (hs.filter (fun h => !isSameHeader cm h.name contentLengthName)).map
    (fun h => (h.name, h.value.encode))

/-- … followed by one freshly computed Content-Length -/
def wireHeaders (cm : List (Bytes × Bytes)) (m : Message) : List (Bytes × Bytes) :=
  keptHeaders cm m.headers ++ [(contentLengthName, natToBytes m.body.length)]

theorem renderHeaders_append (eol : Bytes) (a b : List (Bytes × Bytes)) :
    renderHeaders eol (a ++ b) = renderHeaders eol a ++ renderHeaders eol b := by
  induction a with
  | nil => rfl
  | cons h hs ih => simp [renderHeaders, ih, List.append_assoc]

theorem encodeHeaders_eq (cm : List (Bytes × Bytes)) (hs : List Header) :
    encodeHeaders cm hs = renderHeaders crlf (keptHeaders cm hs) := by
  induction hs with
  | nil => rfl
  | cons h hs ih =>
    by_cases hc : isSameHeader cm h.name contentLengthName = true
    · simp only [encodeHeaders, hc, ↓reduceIte, List.nil_append, ih]
      simp [keptHeaders, hc]
    · simp only [encodeHeaders, hc, ih]
      simp [keptHeaders, hc, renderHeaders, List.append_assoc]

theorem bytes_eq_render (cm : List (Bytes × Bytes)) (m : Message) :
    m.bytes cm = render crlf (startLineBytes m.start) (wireHeaders cm m) m.body := by
  simp [Message.bytes, render, wireHeaders, encodeFirstLine_eq, encodeHeaders_eq,
    renderHeaders_append, renderHeaders, List.append_assoc]

theorem isSameHeader_self (cm : List (Bytes × Bytes)) (n : Bytes) : isSameHeader cm n n = true := by
  simp [isSameHeader, equalFold]

theorem firstValue_wireHeaders (cm : List (Bytes × Bytes)) (m : Message) :
    firstValue cm (wireHeaders cm m) contentLengthName = some (natToBytes m.body.length) := by
  have hnone : (keptHeaders cm m.headers).find? (fun h => isSameHeader cm h.1 contentLengthName)
      = none := by
    rw [List.find?_eq_none]
    intro x hx
    simp only [keptHeaders, List.mem_map, List.mem_filter] at hx
    obtain ⟨h, ⟨_, hh⟩, rfl⟩ := hx
    simpa using hh
  simp [firstValue, wireHeaders, List.find?_append, hnone, isSameHeader_self]

theorem contentLength_headerOK (n : Nat) : HeaderOK (contentLengthName, natToBytes n) := by
  have hd := natToBytes_digits n
  have h58 : (58 : UInt8) ∉ contentLengthName := by decide +kernel
  have h13 : (13 : UInt8) ∉ contentLengthName := by decide +kernel
  have h10 : (10 : UInt8) ∉ contentLengthName := by decide +kernel
  refine ⟨h58, h13, h10, ?_, ?_, trimSpace_natToBytes n⟩
  · intro hm
    have := hd 13 hm
    exact absurd this.1 (by decide)
  · intro hm
    have := hd 10 hm
    exact absurd this.1 (by decide)

/-- The proxy's own output is framed exactly: parsing `m.Bytes()` (followed by anything) gives
back the start line, the written headers in order, the body, and leaves what followed untouched —
provided the first line is a start line (parses back, no CR/LF, no leading blank) and the headers
it writes are clean lines. -/
theorem parse_bytes (cm : List (Bytes × Bytes)) (m : Message)
    (hst : StartOK (startLineBytes m.start))
    (hparse : parseStartLine (startLineBytes m.start) = some m.start)
    (hhs : ∀ h ∈ keptHeaders cm m.headers, HeaderOK h)
    (hbody : m.body.length ≤ 9223372036854775807) (rest : Bytes) :
    parseMessage cm (m.bytes cm ++ rest)
      = .ok ⟨m.start, (wireHeaders cm m).map toHeader, m.body⟩ rest := by
  rw [bytes_eq_render]
  refine parse_render_ws cm crlf _ m.start _ m.body (Or.inl rfl) ⟨hst, hparse, ?_,
    firstValue_wireHeaders cm m, hbody⟩ [] rest (by simp)
  intro h hh
  simp only [wireHeaders, List.mem_append, List.mem_singleton] at hh
  rcases hh with hh | rfl
  · exact hhs h hh
  · exact contentLength_headerOK _

/-! ### non-vacuity: concrete well-formed messages -/

/-- `SIP/2.0 200 OK` with the single header `Content-Length: 2` and body `hi`, for EVERY compact
table (the literal name is in its own class whatever the table says). -/
theorem wf_example_status (cm : List (Bytes × Bytes)) :
    WF cm [83, 73, 80, 47, 50, 46, 48, 32, 50, 48, 48, 32, 79, 75]
      (.status [83, 73, 80, 47, 50, 46, 48] 200 [79, 75])
      [(contentLengthName, [50])] [104, 105] where
  start_ok := ⟨by decide, by decide, by decide, by decide⟩
  start_parse := by decide +kernel
  headers_ok := by
    intro h hh
    simp only [List.mem_singleton] at hh
    subst hh
    exact ⟨by decide +kernel, by decide +kernel, by decide +kernel, by decide, by decide, by decide⟩
  content_length := by
    have : natToBytes 2 = [50] := by decide
    simp [firstValue, isSameHeader, equalFold, this]
  body_le := by decide

/-- a request with two headers (`Via: x`, `Content-Length: 0`), empty compact table, empty body -/
theorem wf_example_request :
    WF [] [79, 32, 116, 58, 49, 32, 83] (.request [79] (.abs [116, 58, 49]) [83])
      [([86, 105, 97], [120]), (contentLengthName, [48])] [] where
  start_ok := ⟨by decide, by decide, by decide, by decide⟩
  start_parse := by decide +kernel
  headers_ok := by
    intro h hh
    simp only [List.mem_cons, List.not_mem_nil, or_false] at hh
    rcases hh with rfl | rfl
    · exact ⟨by decide, by decide, by decide, by decide, by decide, by decide⟩
    · exact ⟨by decide +kernel, by decide +kernel, by decide +kernel, by decide, by decide, by decide⟩
  content_length := by decide +kernel
  body_le := by decide

/-- `parse_render` on the first example, any compact table, CRLF and bare-LF line ends, with three
bytes of the next message behind it -/
example (cm : List (Bytes × Bytes)) :
    parseMessage cm (render [13, 10] [83, 73, 80, 47, 50, 46, 48, 32, 50, 48, 48, 32, 79, 75]
        [(contentLengthName, [50])] [104, 105] ++ [73, 78, 86])
      = .ok ⟨.status [83, 73, 80, 47, 50, 46, 48] 200 [79, 75],
             [⟨contentLengthName, .raw [50]⟩], [104, 105]⟩ [73, 78, 86] :=
  parse_render cm _ _ _ _ _ (Or.inl rfl) (wf_example_status cm) _

example (cm : List (Bytes × Bytes)) :
    parseMessage cm (keepAlives 3 ++ (render [10] [83, 73, 80, 47, 50, 46, 48, 32, 50, 48, 48, 32, 79, 75]
        [(contentLengthName, [50])] [104, 105] ++ [73, 78, 86]))
      = .ok ⟨.status [83, 73, 80, 47, 50, 46, 48] 200 [79, 75],
             [⟨contentLengthName, .raw [50]⟩], [104, 105]⟩ [73, 78, 86] :=
  parse_render_keepAlive cm _ _ _ _ _ (Or.inr rfl) (wf_example_status cm) 3 _

/-- `trimSpace_eq_self`: inner blanks are fine, only the two ends matter -/
example : trimSpace [97, 32, 98] = [97, 32, 98] :=
  trimSpace_eq_self _ (Or.inr ⟨⟨97, rfl, by decide, by decide⟩, ⟨98, rfl, by decide, by decide⟩⟩)

example : readLine ([86, 105, 97] ++ [13, 10] ++ [120]) = some ([86, 105, 97], [120]) :=
  readLine_eol _ _ _ (Or.inl rfl) (by decide) (by decide)

/-- `parse_bytes` applies: a 200 response holding `Via: x` and a stale `Content-Length: 99`; the
encoder drops the stale header, writes `Content-Length: 2`, and the parser reads exactly that -/
example : let m : Message :=
      ⟨.status [83, 73, 80, 47, 50, 46, 48] 200 [79, 75],
       [⟨[86, 105, 97], .raw [120]⟩, ⟨contentLengthName, .raw [57, 57]⟩], [104, 105]⟩
    parseMessage [] (m.bytes [] ++ [1, 2, 3])
      = .ok ⟨m.start, [⟨[86, 105, 97], .raw [120]⟩, ⟨contentLengthName, .raw [50]⟩], m.body⟩ [1, 2, 3] := by
  intro m
  have hk : keptHeaders [] m.headers = [([86, 105, 97], [120])] := by decide +kernel
  have := parse_bytes [] m ⟨by decide +kernel, by decide +kernel, by decide +kernel, by decide +kernel⟩
    (by decide +kernel)
    (by
      rw [hk]
      intro h hh
      simp only [List.mem_singleton] at hh
      subst hh
      exact ⟨by decide, by decide, by decide, by decide, by decide, by decide⟩)
    (by decide) [1, 2, 3]
  rw [this]
  have h2 : natToBytes 2 = [50] := by decide
  simp [wireHeaders, hk, toHeader, m, h2]

/-! ### size bounds (C08) -/

theorem skipWhiteSpace_length (s : Bytes) : (skipWhiteSpace s).length ≤ s.length := by
  induction s with
  | nil => simp [skipWhiteSpace]
  | cons b bs ih =>
    simp only [skipWhiteSpace, List.dropWhile_cons] at ih ⊢
    split
    · simp only [List.length_cons]; omega
    · simp

/-- line and rest together never exceed the input, and whenever a line is returned at all the rest
is strictly shorter than the input -/
theorem readLine_length (s line rest : Bytes) (h : readLine s = some (line, rest)) :
    line.length + rest.length ≤ s.length ∧ rest.length < s.length := by
  cases s with
  | nil => simp [readLine] at h
  | cons b bs =>
    rw [readLine_of_ne_nil _ (by simp)] at h
    cases hc : cut 10 (b :: bs) with
    | none =>
      simp only [hc, Option.some.injEq, Prod.mk.injEq] at h
      obtain ⟨rfl, rfl⟩ := h
      simp
    | some p =>
      obtain ⟨l, r⟩ := p
      have hs := (cut_some 10 _ l r hc).1
      have hlen : (b :: bs).length = l.length + r.length + 1 := by
        rw [hs]; simp; omega
      simp only [hc] at h
      split at h
      · simp only [Option.some.injEq, Prod.mk.injEq] at h
        obtain ⟨rfl, rfl⟩ := h
        rw [hlen, List.length_dropLast]; omega
      · simp only [Option.some.injEq, Prod.mk.injEq] at h
        obtain ⟨rfl, rfl⟩ := h
        rw [hlen]; omega

/-- every header line (and the blank line) consumes at least one byte -/
theorem parseHeaderLines_length (fuel : Nat) (s : Bytes) (hs : List Header) (rest : Bytes)
    (h : parseHeaderLines fuel s = some (hs, rest)) : hs.length + rest.length < s.length := by
  induction fuel generalizing s hs with
  | zero => simp [parseHeaderLines] at h
  | succ f ih =>
    simp only [parseHeaderLines] at h
    cases hr : readLine s with
    | none => simp [hr] at h
    | some p =>
      obtain ⟨line, rest1⟩ := p
      have hl := readLine_length s line rest1 hr
      simp only [hr] at h
      split at h
      · simp only [Option.some.injEq, Prod.mk.injEq] at h
        obtain ⟨rfl, rfl⟩ := h
        simpa using hl.2
      · cases hc : cut 58 line with
        | none => simp [hc] at h
        | some q =>
          obtain ⟨name, v⟩ := q
          simp only [hc] at h
          cases hp : parseHeaderLines f rest1 with
          | none => simp [hp] at h
          | some r =>
            obtain ⟨hs', rest'⟩ := r
            simp only [hp, Option.some.injEq, Prod.mk.injEq] at h
            obtain ⟨rfl, rfl⟩ := h
            have := ih rest1 hs' hp
            simp only [List.length_cons]; omega

/-- what a successful parse can hold: headers, body and unconsumed input together are smaller than
the input (one byte per header line at least, one for the start line, one for the blank line) -/
theorem parseMessage_size (cm : List (Bytes × Bytes)) (input : Bytes) (m : Message) (rest : Bytes)
    (h : parseMessage cm input = .ok m rest) :
    m.headers.length + m.body.length + rest.length + 2 ≤ input.length := by
  unfold parseMessage at h
  have hskip := skipWhiteSpace_length input
  simp only at h
  cases hr : readLine (skipWhiteSpace input) with
  | none => simp [hr] at h
  | some p =>
    obtain ⟨first, rest1⟩ := p
    have hl := readLine_length _ first rest1 hr
    simp only [hr] at h
    split at h
    · cases h
    · rename_i hfirst
      cases hsl : parseStartLine first with
      | none => simp [hsl] at h
      | some sl =>
        simp only [hsl] at h
        cases hp : parseHeaderLines (rest1.length + 1) rest1 with
        | none => simp [hp] at h
        | some r =>
          obtain ⟨hs, rest'⟩ := r
          have hh := parseHeaderLines_length _ rest1 hs rest' hp
          simp only [hp] at h
          cases hg : getHeaderInt cm { start := sl, headers := hs, body := [] } contentLengthName with
          | none => simp [hg] at h
          | some cl =>
            simp only [hg] at h
            split at h
            · cases h
            · split at h
              · cases h
              · rename_i hcl
                simp only [ParseResult.ok.injEq] at h
                obtain ⟨rfl, rfl⟩ := h
                simp only [List.length_take, List.length_drop]
                omega

/-! ### over-declared body length (C10) -/

/-- a printed number beyond int64 is refused by `strconv.Atoi` -/
theorem atoi_natToBytes_big (n : Nat) (h : 9223372036854775807 < n) : atoi (natToBytes n) = none := by
  obtain ⟨h1, h2, h3⟩ := natToBytes_spec n
  have hne : (natToBytes n).isEmpty = false := by
    cases hx : natToBytes n with
    | nil => exact absurd hx h2
    | cons _ _ => rfl
  have : ¬ n ≤ 9223372036854775807 := by omega
  simp [atoi, splitSign_digits _ h1, atoiDigits, hne, h1, h3, this]

/-- header section complete, first Content-Length-class header declares `k`, fewer than `k` bytes
follow the blank line: rejected (also when `k` does not fit an int64) -/
theorem parseMessage_overdeclared (cm : List (Bytes × Bytes)) (eol start : Bytes)
    (hs : List (Bytes × Bytes)) (heol : EolOK eol) (hst : StartOK start)
    (hhs : ∀ h ∈ hs, HeaderOK h) (k : Nat)
    (hcl : firstValue cm hs contentLengthName = some (natToBytes k))
    (short : Bytes) (hshort : short.length < k) :
    parseMessage cm (start ++ eol ++ renderHeaders eol hs ++ eol ++ short) = .error := by
  have := parseMessage_render_gen cm eol start hs heol hst hhs [] short (by simp)
  simp only [List.nil_append] at this
  rw [this, hcl]
  cases parseStartLine start with
  | none => rfl
  | some sl =>
    by_cases hk : k ≤ 9223372036854775807
    · have h2 : short.length < (Int.ofNat k).toNat := by simpa using hshort
      simp only [Option.bind_some, atoi_natToBytes k hk, h2, ↓reduceIte]
      split <;> rfl
    · simp only [Option.bind_some, atoi_natToBytes_big k (by omega)]

/-! ### truncated input (C10) -/

theorem parseHeaderLines_nil (fuel : Nat) : parseHeaderLines fuel [] = none := by
  cases fuel <;> simp [parseHeaderLines, readLine]

/-- the header loop fails on input without any LF (no blank line can be found) -/
theorem parseHeaderLines_no_lf (fuel : Nat) (s : Bytes) (h : (10 : UInt8) ∉ s) :
    parseHeaderLines fuel s = none := by
  cases fuel with
  | zero => rfl
  | succ f =>
    cases s with
    | nil => exact parseHeaderLines_nil _
    | cons b bs =>
      simp only [parseHeaderLines, readLine_of_ne_nil (b :: bs) (by simp), cut_of_not_mem 10 _ h]
      simp only [List.length_cons, Nat.add_eq_zero_iff, Nat.succ_ne_self, and_false, ↓reduceIte,
        parseHeaderLines_nil]
      cases cut 58 (b :: bs) <;> rfl

/-- a datagram without any LF is rejected -/
theorem parseMessage_no_lf (cm : List (Bytes × Bytes)) (d : Bytes) (h : (10 : UInt8) ∉ d) :
    parseMessage cm d = .error := by
  have hs : (10 : UInt8) ∉ skipWhiteSpace d :=
    fun hm => h ((List.dropWhile_suffix isWhiteSpace).subset hm)
  unfold parseMessage
  simp only
  cases hsk : skipWhiteSpace d with
  | nil => simp [readLine]
  | cons b bs =>
    rw [hsk] at hs
    simp only [readLine_of_ne_nil (b :: bs) (by simp), cut_of_not_mem 10 _ hs]
    simp only [List.length_cons, Nat.add_eq_zero_iff, Nat.succ_ne_self, and_false, ↓reduceIte,
      List.length_nil, Nat.zero_add, parseHeaderLines_no_lf 1 [] (by simp)]
    cases parseStartLine (b :: bs) <;> rfl

/-- complete header lines followed by an LF-free fragment: the header loop fails -/
theorem parseHeaderLines_truncated (eol : Bytes) (heol : EolOK eol) (hs : List (Bytes × Bytes))
    (hok : ∀ h ∈ hs, HeaderOK h) (part : Bytes) (hpart : (10 : UInt8) ∉ part) (fuel : Nat) :
    parseHeaderLines fuel (renderHeaders eol hs ++ part) = none := by
  induction hs generalizing fuel with
  | nil => simpa [renderHeaders] using parseHeaderLines_no_lf fuel part hpart
  | cons h hs ih =>
    cases fuel with
    | zero => rfl
    | succ f =>
      have hh := hok h (by simp)
      have hline : renderHeaders eol (h :: hs) ++ part
          = (h.1 ++ [58, 32] ++ h.2) ++ eol ++ (renderHeaders eol hs ++ part) := by
        simp [renderHeaders, List.append_assoc]
      have hcr : (13 : UInt8) ∉ h.1 ++ [58, 32] ++ h.2 := by simp [hh.name_cr, hh.val_cr]
      have hlf : (10 : UInt8) ∉ h.1 ++ [58, 32] ++ h.2 := by simp [hh.name_lf, hh.val_lf]
      have hcut : cut 58 (h.1 ++ [58, 32] ++ h.2) = some (h.1, 32 :: h.2) := by
        have := cut_append_of_not_mem 58 h.1 (32 :: h.2) hh.name_colon
        simpa using this
      have hlen : ¬ (h.1 ++ [58, 32] ++ h.2).length = 0 := by simp
      rw [hline]
      simp only [parseHeaderLines, readLine_eol eol _ _ heol hcr hlf, hlen, ↓reduceIte, hcut,
        ih (fun x hx => hok x (by simp [hx])) f]

/-- a datagram that ends inside its header section (after the start line, any number of complete
header lines, then an LF-free fragment — possibly empty) is rejected -/
theorem parseMessage_truncated_headers (cm : List (Bytes × Bytes)) (eol start : Bytes)
    (hs : List (Bytes × Bytes)) (heol : EolOK eol) (hst : StartOK start)
    (hhs : ∀ h ∈ hs, HeaderOK h) (part : Bytes) (hpart : (10 : UInt8) ∉ part) :
    parseMessage cm (start ++ eol ++ (renderHeaders eol hs ++ part)) = .error := by
  have hlen : ¬ start.length = 0 := by
    cases start with
    | nil => exact absurd rfl hst.ne
    | cons _ _ => simp
  unfold parseMessage
  simp only [List.append_assoc start, skipWhiteSpace_start _ _ hst]
  simp only [← List.append_assoc start, readLine_eol eol start _ heol hst.cr hst.lf, hlen,
    ↓reduceIte, parseHeaderLines_truncated eol heol hs hhs part hpart]
  cases parseStartLine start <;> rfl

theorem eol_split (eol : Bytes) (heol : EolOK eol) : ∃ e, eol = e ++ [10] ∧ (10 : UInt8) ∉ e := by
  rcases heol with rfl | rfl
  · exact ⟨[13], rfl, by decide⟩
  · exact ⟨[], rfl, by simp⟩

/-- cutting a line short of its LF leaves no LF -/
theorem not_mem_take_line (x eol : Bytes) (heol : EolOK eol) (hx : (10 : UInt8) ∉ x) (n : Nat)
    (hn : n < (x ++ eol).length) : (10 : UInt8) ∉ (x ++ eol).take n := by
  obtain ⟨e, rfl, he⟩ := eol_split eol heol
  have hle : n ≤ (x ++ e).length := by
    simp only [List.length_append, List.length_cons, List.length_nil] at hn ⊢; omega
  rw [← List.append_assoc, List.take_append_of_le_length hle]
  intro hm
  have := List.mem_of_mem_take hm
  simp only [List.mem_append] at this
  rcases this with h | h
  · exact hx h
  · exact he h

/-- a strict truncation of a rendered header section (blank line included) consists of complete
header lines followed by an LF-free fragment -/
theorem take_renderHeaders (eol : Bytes) (heol : EolOK eol) (hs : List (Bytes × Bytes))
    (hok : ∀ h ∈ hs, HeaderOK h) (n : Nat) (hn : n < (renderHeaders eol hs ++ eol).length) :
    ∃ hs1 part, (renderHeaders eol hs ++ eol).take n = renderHeaders eol hs1 ++ part ∧
      (10 : UInt8) ∉ part ∧ ∀ h ∈ hs1, HeaderOK h := by
  induction hs generalizing n with
  | nil =>
    refine ⟨[], (renderHeaders eol [] ++ eol).take n, by simp [renderHeaders], ?_, by simp⟩
    have := not_mem_take_line [] eol heol (by simp) n (by simpa [renderHeaders] using hn)
    simpa [renderHeaders] using this
  | cons h hs ih =>
    have hh := hok h (by simp)
    have hlf : (10 : UInt8) ∉ h.1 ++ [58, 32] ++ h.2 := by simp [hh.name_lf, hh.val_lf]
    have hshape : renderHeaders eol (h :: hs) ++ eol
        = ((h.1 ++ [58, 32] ++ h.2) ++ eol) ++ (renderHeaders eol hs ++ eol) := by
      simp [renderHeaders, List.append_assoc]
    rw [hshape] at hn ⊢
    by_cases hlt : n < ((h.1 ++ [58, 32] ++ h.2) ++ eol).length
    · refine ⟨[], (h.1 ++ [58, 32] ++ h.2 ++ eol).take n, ?_, ?_, by simp⟩
      · rw [List.take_append_of_le_length (by omega)]; simp [renderHeaders]
      · exact not_mem_take_line _ eol heol hlf n hlt
    · have hge : ((h.1 ++ [58, 32] ++ h.2) ++ eol).length ≤ n := by omega
      obtain ⟨hs1, part, h1, h2, h3⟩ := ih (fun x hx => hok x (by simp [hx]))
        (n - ((h.1 ++ [58, 32] ++ h.2) ++ eol).length)
        (by rw [List.length_append] at hn; omega)
      refine ⟨h :: hs1, part, ?_, h2, ?_⟩
      · rw [List.take_append, List.take_of_length_le hge, h1]
        simp [renderHeaders, List.append_assoc]
      · intro x hx
        rcases List.mem_cons.mp hx with rfl | hx
        · exact hh
        · exact h3 x hx

/-- every strict truncation of a well-formed message inside its header section (start line, header
lines, blank line) is rejected, whatever the cut position -/
theorem parseMessage_take_headers (cm : List (Bytes × Bytes)) (eol start : Bytes)
    (hs : List (Bytes × Bytes)) (body : Bytes) (heol : EolOK eol) (hst : StartOK start)
    (hhs : ∀ h ∈ hs, HeaderOK h) (n : Nat)
    (hn : n < (start ++ eol ++ renderHeaders eol hs ++ eol).length) :
    parseMessage cm ((render eol start hs body).take n) = .error := by
  have hshape : render eol start hs body
      = (start ++ eol) ++ ((renderHeaders eol hs ++ eol) ++ body) := by
    simp [render, List.append_assoc]
  have hlen : (start ++ eol ++ renderHeaders eol hs ++ eol).length
      = (start ++ eol).length + (renderHeaders eol hs ++ eol).length := by
    simp only [List.length_append]; omega
  rw [hshape]
  by_cases hlt : n < (start ++ eol).length
  · rw [List.take_append_of_le_length (by omega)]
    exact parseMessage_no_lf cm _ (not_mem_take_line start eol heol hst.lf n hlt)
  · have hge : (start ++ eol).length ≤ n := by omega
    have hn' : n - (start ++ eol).length < (renderHeaders eol hs ++ eol).length := by omega
    rw [List.take_append, List.take_of_length_le hge, List.take_append_of_le_length (by omega)]
    obtain ⟨hs1, part, h1, h2, h3⟩ := take_renderHeaders eol heol hs hhs _ hn'
    rw [h1]
    exact parseMessage_truncated_headers cm eol start hs1 heol hst h3 part h2

end Lemmas
