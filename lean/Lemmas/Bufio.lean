/-
Lemmas.Bufio — the operational `bufio.Reader` of Reader/Bufio.lean agrees with the logical-stream
model (Sip.readLine / Sip.parseMessage / Reader.connLoop) for every segmentation of the stream and
every buffer size.
-/
import Reader.Bufio
import Reader.Frame
import Lemmas.Bytes
import Lemmas.Message
open GoStd Sip

namespace Lemmas.Bufio
open Reader.Bufio Lemmas

/-! ### ReadSlice is a function of the logical stream -/

/-- `ReadSlice('\n')` of a reader with capacity `N`, stated on the logical stream -/
def sliceSpec (N : Nat) (s : Bytes) : Slice × Bytes :=
  match cut 10 (s.take N) with
  | some (l, _) => (.line (l ++ [10]), s.drop (l.length + 1))
  | none => if N ≤ s.length then (.full (s.take N), s.drop N) else (.eof s, [])

theorem cut_take_of_cut (c : UInt8) (a y l r : Bytes) (N : Nat) (h : cut c a = some (l, r))
    (hN : a.length ≤ N) : ∃ r', cut c ((a ++ y).take N) = some (l, r') := by
  obtain ⟨rfl, hl⟩ := cut_some c a l r h
  have hlen : l.length + 1 ≤ N := by simp at hN; omega
  refine ⟨(r ++ y).take (N - (l.length + 1)), ?_⟩
  have : ((l ++ c :: r) ++ y).take N = l ++ c :: (r ++ y).take (N - (l.length + 1)) := by
    rw [List.append_assoc, List.take_append]
    have h1 : l.take N = l := List.take_of_length_le (by omega)
    rw [h1]
    congr 1
    have : N - l.length = (N - (l.length + 1)) + 1 := by omega
    rw [this]
    simp
  rw [this, cut_append_of_not_mem c l _ hl]

theorem readSlice_spec (N : Nat) (src : List Bytes) (buf : Bytes) (hb : buf.length ≤ N) :
    (readSlice N src buf).1 = (sliceSpec N (buf ++ src.flatten)).1
    ∧ (readSlice N src buf).2.logical = (sliceSpec N (buf ++ src.flatten)).2
    ∧ (readSlice N src buf).2.buf.length ≤ N
    ∧ (∀ l, (readSlice N src buf).1 = .full l → (readSlice N src buf).2.buf = []) := by
  induction src generalizing buf with
  | nil =>
    simp only [readSlice, List.flatten_nil, List.append_nil, sliceSpec,
      List.take_of_length_le hb]
    cases hc : cut 10 buf with
    | some p =>
      obtain ⟨l, r⟩ := p
      obtain ⟨rfl, _⟩ := cut_some 10 buf l r hc
      simp [BR.logical] at hb ⊢
      omega
    | none =>
      by_cases hN : N ≤ buf.length
      · have : buf.length = N := by omega
        simp [BR.logical, ← this]
      · simp [hN, BR.logical]
  | cons seg more ih =>
    simp only [readSlice]
    cases hc : cut 10 buf with
    | some p =>
      obtain ⟨l, r⟩ := p
      obtain ⟨r', hr'⟩ := cut_take_of_cut 10 buf (seg :: more).flatten l r N hc hb
      obtain ⟨rfl, _⟩ := cut_some 10 buf l r hc
      simp only [sliceSpec, hr']
      simp [BR.logical] at hb ⊢
      omega
    | none =>
      have hnm : (10 : UInt8) ∉ buf := (cut_eq_none_iff 10 buf).mp hc
      by_cases hN : N ≤ buf.length
      · have hlen : buf.length = N := by omega
        have ht : (buf ++ (seg :: more).flatten).take N = buf := by
          rw [List.take_append, List.take_of_length_le (by omega)]; simp [hlen]
        have hd : (buf ++ (seg :: more).flatten).drop N = (seg :: more).flatten := by
          rw [← hlen]; simp
        have : N ≤ (buf ++ (seg :: more).flatten).length := by simp; omega
        simp only [hN, ↓reduceIte, sliceSpec, ht, hc, hd, if_pos this]
        simp [BR.logical]
      · simp only [hN, ↓reduceIte]
        by_cases hfit : seg.length ≤ N - buf.length
        · simp only [hfit, ↓reduceIte]
          have := ih (buf ++ seg) (by simp; omega)
          simpa [List.append_assoc] using this
        · simp only [hfit, ↓reduceIte]
          have hk : (seg.take (N - buf.length)).length = N - buf.length := by
            simp; omega
          have ht : (buf ++ (seg :: more).flatten).take N = buf ++ seg.take (N - buf.length) := by
            rw [List.take_append, List.take_of_length_le (by omega)]
            simp only [List.flatten_cons, List.take_append, List.append_cancel_left_eq]
            have : N - buf.length - seg.length = 0 := by omega
            simp [this]
          have hd : (buf ++ (seg :: more).flatten).drop N
              = seg.drop (N - buf.length) ++ more.flatten := by
            rw [List.drop_append, List.drop_of_length_le (by omega)]
            simp only [List.flatten_cons, List.nil_append, List.drop_append]
            have : N - buf.length - seg.length = 0 := by omega
            simp [this]
          have hlen : N ≤ (buf ++ (seg :: more).flatten).length := by simp; omega
          simp only [sliceSpec, ht]
          cases hc' : cut 10 (buf ++ seg.take (N - buf.length)) with
          | some p =>
            obtain ⟨l, r⟩ := p
            obtain ⟨he, _⟩ := cut_some 10 _ l r hc'
            have hll : l.length + 1 + r.length = N := by
              have := congrArg List.length he
              simp only [List.length_append, hk, List.length_cons] at this
              omega
            refine ⟨rfl, ?_, by simp; omega⟩
            simp only [BR.logical, List.flatten_cons]
            -- the rest of the stream: what is left in the buffer, then the rest of the segment
            have : (buf ++ (seg ++ more.flatten))
                = (buf ++ seg.take (N - buf.length)) ++ (seg.drop (N - buf.length) ++ more.flatten) := by
              simp only [List.append_assoc, List.append_cancel_left_eq]
              rw [← List.append_assoc, List.take_append_drop]
            rw [this, he]
            simp [List.append_assoc]
          | none =>
            simp only [if_pos hlen, hd]
            simp [BR.logical]

/-! ### ReadLine and the join loop of message.go's readLine, on the logical stream -/

/-- the reader invariant: the unread part of the buffer fits the buffer -/
def Inv (N : Nat) (b : BR) : Prop := b.buf.length ≤ N

/-- `ReadLine` on the logical stream -/
def fragSpec (N : Nat) (s : Bytes) : Option (Bytes × Bool × Bytes) :=
  match sliceSpec N s with
  | (.full l, r) => if l.getLast? == some 13 then some (l.dropLast, true, 13 :: r) else some (l, true, r)
  | (.eof l, r) => if l.isEmpty then none else some (l, false, r)
  | (.line l, r) => some (stripEol l.dropLast, false, r)

def joinSpec (N : Nat) : Nat → Bytes → Bytes → Option (Bytes × Bytes)
  | 0, _, _ => none
  | fuel + 1, acc, s =>
    match fragSpec N s with
    | none => none
    | some (l, true, r) => joinSpec N fuel (acc ++ l) r
    | some (l, false, r) => some (acc ++ l, r)

theorem readLineFrag_spec (N : Nat) (hN : 1 ≤ N) (b : BR) (hb : Inv N b) :
    (readLineFrag N b).map (fun x => (x.1, x.2.1, x.2.2.logical)) = fragSpec N b.logical
    ∧ ∀ x ∈ readLineFrag N b, Inv N x.2.2 := by
  obtain ⟨h1, h2, h3, h4⟩ := readSlice_spec N b.src b.buf hb
  unfold readLineFrag fragSpec
  rw [show b.logical = b.buf ++ b.src.flatten from rfl]
  cases hr : readSlice N b.src b.buf with
  | mk sl b' =>
    cases hs : sliceSpec N (b.buf ++ b.src.flatten) with
    | mk sl' r =>
      rw [hr] at h1 h2 h3 h4; rw [hs] at h1 h2
      simp only at h1 h2 h3 h4
      subst h1
      cases sl with
      | line l => simp [h2, Inv, h3]
      | eof l =>
        by_cases he : l.isEmpty <;> simp [he, h2, Inv, h3]
      | full l =>
        have hnil : b'.buf = [] := h4 l rfl
        by_cases hl : l.getLast? == some 13
        · simp only [hl, ↓reduceIte, Option.map_some, Option.some.injEq, Prod.mk.injEq, true_and]
          refine ⟨by simp [BR.logical, ← h2], ?_⟩
          intro x hx
          simp only [Option.mem_def, Option.some.injEq] at hx
          subst hx
          simp [Inv, hnil]; omega
        · simp only [hl, Bool.false_eq_true, ↓reduceIte, Option.map_some, Option.some.injEq,
            Prod.mk.injEq, true_and, h2]
          intro x hx
          simp only [Option.mem_def, Option.some.injEq] at hx
          subst hx
          exact h3

theorem joinLoop_spec (N : Nat) (hN : 1 ≤ N) (fuel : Nat) (acc : Bytes) (b : BR) (hb : Inv N b) :
    (joinLoop N fuel acc b).map (fun x => (x.1, x.2.logical)) = joinSpec N fuel acc b.logical
    ∧ ∀ x ∈ joinLoop N fuel acc b, Inv N x.2 := by
  induction fuel generalizing acc b with
  | zero => simp [joinLoop, joinSpec]
  | succ f ih =>
    obtain ⟨h1, h2⟩ := readLineFrag_spec N hN b hb
    simp only [joinLoop, joinSpec, ← h1]
    cases hr : readLineFrag N b with
    | none => simp
    | some x =>
      obtain ⟨l, pre, b'⟩ := x
      have hb' : Inv N b' := h2 (l, pre, b') (by simp [hr])
      cases pre with
      | true => simpa using ih (acc ++ l) b' hb'
      | false => simpa using hb'

/-! ### the join loop re-assembles exactly the line of the logical stream -/

theorem cut_of_cut_take (c : UInt8) (s l x : Bytes) (N : Nat) (h : cut c (s.take N) = some (l, x)) :
    cut c s = some (l, s.drop (l.length + 1)) := by
  obtain ⟨he, hl⟩ := cut_some c _ l x h
  have hs : s = l ++ c :: (x ++ s.drop N) := by
    conv => lhs; rw [← List.take_append_drop N s, he]
    simp
  have hd : s.drop (l.length + 1) = x ++ s.drop N := by
    conv => lhs; rw [hs]
    rw [List.drop_append]
    simp
  rw [hd]
  conv => lhs; rw [hs]
  exact cut_append_of_not_mem c l _ hl

theorem cut_append_left (c : UInt8) (l r : Bytes) (h : c ∉ l) :
    cut c (l ++ r) = (cut c r).map (fun p => (l ++ p.1, p.2)) := by
  induction l with
  | nil => simp only [List.nil_append]; cases cut c r <;> simp
  | cons b bs ih =>
    have hb : b ≠ c := fun e => h (by simp [e])
    have hbs : c ∉ bs := fun m => h (by simp [m])
    simp only [List.cons_append, cut, hb, ↓reduceIte, ih hbs]
    cases cut c r <;> simp

theorem eq_dropLast_append (l : Bytes) (x : UInt8) (h : l.getLast? = some x) : l = l.dropLast ++ [x] := by
  have hne : l ≠ [] := by intro e; rw [e] at h; cases h
  have h2 := List.getLast?_eq_getLast hne
  rw [h] at h2
  have h3 := List.dropLast_concat_getLast hne
  simp only [Option.some.injEq] at h2
  rw [← h2] at h3
  exact h3.symm

theorem getLast?_append_ne_nil (a l : Bytes) (h : l ≠ []) : (a ++ l).getLast? = l.getLast? := by
  rw [List.getLast?_append]
  cases hg : l.getLast? with
  | none => simp at hg; exact absurd hg h
  | some v => rfl

theorem stripEol_append (acc c : Bytes) (h : c ≠ [] ∨ acc.getLast? ≠ some 13) :
    stripEol (acc ++ c) = acc ++ stripEol c := by
  unfold stripEol
  cases c with
  | nil =>
    have : acc.getLast? ≠ some 13 := by
      rcases h with h | h
      · exact absurd rfl h
      · exact h
    simp [this]
  | cons x xs =>
    have h1 : (acc ++ x :: xs).getLast? = (x :: xs).getLast? := by
      rw [List.getLast?_append]
      cases hg : (x :: xs).getLast? with
      | none => simp at hg
      | some v => rfl
    rw [h1]
    by_cases hl : (x :: xs).getLast? == some 13
    · simp only [hl, ↓reduceIte]
      rw [List.dropLast_append_of_ne_nil (by simp)]
    · simp [hl]

theorem joinSpec_lf (N : Nat) (hN : 2 ≤ N) (fuel : Nat) (acc s c rest : Bytes)
    (hI : acc.getLast? = some 13 → s.head? ≠ some 10)
    (hc : cut 10 s = some (c, rest)) (hf : s.length + 1 ≤ fuel) :
    joinSpec N fuel acc s = some (stripEol (acc ++ c), rest) := by
  induction fuel generalizing acc s c with
  | zero => omega
  | succ f ih =>
    simp only [joinSpec, fragSpec, sliceSpec]
    cases hct : cut 10 (s.take N) with
    | some p =>
      obtain ⟨l, x⟩ := p
      have := cut_of_cut_take 10 s l x N hct
      rw [hc] at this
      simp only [Option.some.injEq, Prod.mk.injEq] at this
      obtain ⟨rfl, hrest⟩ := this
      simp only [List.dropLast_concat, ← hrest]
      rw [stripEol_append]
      by_cases hcn : c = []
      · right
        intro ha
        have hs := (cut_some 10 s c rest hc).1
        rw [hcn] at hs
        exact hI ha (by rw [hs]; rfl)
      · exact Or.inl hcn
    | none =>
      have hNs : N ≤ s.length := by
        rcases Nat.lt_or_ge s.length N with hlt | hge
        · rw [List.take_of_length_le (by omega), hc] at hct; cases hct
        · exact hge
      have hnl : (10 : UInt8) ∉ s.take N := (cut_eq_none_iff 10 _).mp hct
      have hsplit : cut 10 s = (cut 10 (s.drop N)).map (fun p => (s.take N ++ p.1, p.2)) := by
        conv => lhs; rw [← List.take_append_drop N s]
        exact cut_append_left 10 _ _ hnl
      rw [hc] at hsplit
      cases hcr : cut 10 (s.drop N) with
      | none => rw [hcr] at hsplit; cases hsplit
      | some q =>
        obtain ⟨c', rest'⟩ := q
        rw [hcr] at hsplit
        simp only [Option.map_some, Option.some.injEq, Prod.mk.injEq] at hsplit
        obtain ⟨hcc, hrr⟩ := hsplit
        subst hrr
        have hlen : (s.take N).length = N := by simp; omega
        have hne : s.take N ≠ [] := by
          intro e; rw [e] at hlen; simp at hlen; omega
        have hdl : (s.drop N).length = s.length - N := by simp
        simp only [hNs, ↓reduceIte]
        by_cases hl : (s.take N).getLast? == some 13
        · simp only [hl, ↓reduceIte]
          have hc13 : cut 10 (13 :: s.drop N) = some (13 :: c', rest) := by
            simp [cut, hcr]
          rw [ih (acc ++ (s.take N).dropLast) (13 :: s.drop N) (13 :: c') (fun _ => by simp) hc13
            (by simp; omega)]
          have hl' : (s.take N).getLast? = some 13 := by simpa using hl
          have hrec : s.take N = (s.take N).dropLast ++ [13] := eq_dropLast_append _ _ hl'
          rw [hcc]
          conv => rhs; rw [hrec]
          simp [List.append_assoc]
        · simp only [hl, Bool.false_eq_true, ↓reduceIte]
          have hl' : (s.take N).getLast? ≠ some 13 := by simpa using hl
          rw [ih (acc ++ s.take N) (s.drop N) c' (fun ha => by
              rw [getLast?_append_ne_nil _ _ hne] at ha
              exact absurd ha hl') hcr (by omega)]
          rw [hcc, List.append_assoc]

/-- a stream without LF: the join loop fails or returns all of it, leaving nothing -/
theorem joinSpec_no_lf (N : Nat) (fuel : Nat) (acc s : Bytes) (h : (10 : UInt8) ∉ s) :
    joinSpec N fuel acc s = none ∨ (s ≠ [] ∧ joinSpec N fuel acc s = some (acc ++ s, [])) := by
  induction fuel generalizing acc s with
  | zero => exact Or.inl rfl
  | succ f ih =>
    have hnt : (10 : UInt8) ∉ s.take N := fun hm => h (List.mem_of_mem_take hm)
    simp only [joinSpec, fragSpec, sliceSpec, cut_of_not_mem 10 _ hnt]
    by_cases hNs : N ≤ s.length
    · simp only [hNs, ↓reduceIte]
      have hnd : (10 : UInt8) ∉ s.drop N := fun hm => h (List.mem_of_mem_drop hm)
      by_cases hl : (s.take N).getLast? == some 13
      · simp only [hl, ↓reduceIte]
        have hl' : (s.take N).getLast? = some 13 := by simpa using hl
        have hrec : s.take N = (s.take N).dropLast ++ [13] := eq_dropLast_append _ _ hl'
        have h13 : (10 : UInt8) ∉ 13 :: s.drop N := by
          simp only [List.mem_cons, not_or]; exact ⟨by decide, hnd⟩
        rcases ih (acc ++ (s.take N).dropLast) (13 :: s.drop N) h13 with h1 | ⟨_, h1⟩
        · exact Or.inl h1
        · right
          refine ⟨fun e => by rw [e] at hrec; simp at hrec, ?_⟩
          rw [h1]
          have : acc ++ (s.take N).dropLast ++ 13 :: s.drop N = acc ++ s := by
            conv => rhs; rw [← List.take_append_drop N s, hrec]
            simp [List.append_assoc]
          rw [this]
      · simp only [hl, Bool.false_eq_true, ↓reduceIte]
        rcases ih (acc ++ s.take N) (s.drop N) hnd with h1 | ⟨hne, h1⟩
        · exact Or.inl h1
        · right
          refine ⟨fun e => hne (by rw [e]; simp), ?_⟩
          rw [h1, List.append_assoc, List.take_append_drop]
    · simp only [hNs, ↓reduceIte]
      by_cases he : s.isEmpty
      · simp [he]
      · right
        simp only [he, Bool.false_eq_true, ↓reduceIte, and_true]
        intro e; rw [e] at he; simp at he

/-! ### message.go readLine over the operational reader = readLine over the logical stream -/

theorem flat_readLine_of_cut (s c rest : Bytes) (hc : cut 10 s = some (c, rest)) :
    Sip.readLine s = some (stripEol c, rest) := by
  have hne : s ≠ [] := by intro e; rw [e] at hc; simp [cut] at hc
  rw [readLine_of_ne_nil s hne, hc]
  simp only [stripEol]
  split <;> rfl

theorem readLine_lf (N : Nat) (hN : 2 ≤ N) (b : BR) (hb : Inv N b) (h : (10 : UInt8) ∈ b.logical) :
    ∃ line b', Reader.Bufio.readLine N b = some (line, b')
      ∧ Sip.readLine b.logical = some (line, b'.logical) ∧ Inv N b' := by
  cases hc : cut 10 b.logical with
  | none => exact absurd h ((cut_eq_none_iff 10 _).mp hc)
  | some p =>
    obtain ⟨c, rest⟩ := p
    obtain ⟨h1, h2⟩ := joinLoop_spec N (by omega) (b.size + 2) [] b hb
    rw [joinSpec_lf N hN (b.size + 2) [] b.logical c rest (by simp) hc (by simp [BR.size])] at h1
    unfold Reader.Bufio.readLine
    cases hj : joinLoop N (b.size + 2) [] b with
    | none => rw [hj] at h1; cases h1
    | some x =>
      rw [hj] at h1
      simp only [Option.map_some, List.nil_append, Option.some.injEq, Prod.mk.injEq] at h1
      refine ⟨x.1, x.2, rfl, ?_, h2 x (by simp [hj])⟩
      rw [flat_readLine_of_cut _ c rest hc, h1.1, h1.2]

theorem readLine_no_lf (N : Nat) (b : BR) (hN : 1 ≤ N) (hb : Inv N b) (h : (10 : UInt8) ∉ b.logical) :
    Reader.Bufio.readLine N b = none
    ∨ ∃ b', Reader.Bufio.readLine N b = some (b.logical, b') ∧ b.logical ≠ [] ∧ b'.logical = []
        ∧ Inv N b' := by
  obtain ⟨h1, h2⟩ := joinLoop_spec N hN (b.size + 2) [] b hb
  unfold Reader.Bufio.readLine
  rcases joinSpec_no_lf N (b.size + 2) [] b.logical h with hj | ⟨hne, hj⟩
  · left
    rw [hj] at h1
    cases hl : joinLoop N (b.size + 2) [] b with
    | none => rfl
    | some x => rw [hl] at h1; cases h1
  · right
    rw [hj] at h1
    cases hl : joinLoop N (b.size + 2) [] b with
    | none => rw [hl] at h1; cases h1
    | some x =>
      rw [hl] at h1
      simp only [Option.map_some, List.nil_append, Option.some.injEq, Prod.mk.injEq] at h1
      refine ⟨x.2, ?_, hne, h1.2, h2 x (by simp [hl])⟩
      rw [← h1.1]

/-! ### ReadByte / UnreadByte (skipWhiteSpace) and Read (io.CopyN) -/

theorem readByte_nil (N : Nat) (src : List Bytes) (buf : Bytes) (h : buf ++ src.flatten = []) :
    readByte N src buf = none := by
  have hbuf : buf = [] := (List.append_eq_nil_iff.mp h).1
  subst hbuf
  induction src with
  | nil => rfl
  | cons seg more ih =>
    have hs : seg = [] := by
      simp only [List.nil_append, List.flatten_cons, List.append_eq_nil_iff] at h; exact h.1
    subst hs
    simp only [readByte, List.take_nil]
    exact ih (by simpa using h)

theorem readByte_cons (N : Nat) (hN : 1 ≤ N) (src : List Bytes) (buf : Bytes) (hb : buf.length ≤ N)
    (c : UInt8) (t : Bytes) (h : buf ++ src.flatten = c :: t) :
    ∃ b', readByte N src buf = some (c, b') ∧ b'.logical = t ∧ b'.buf.length + 1 ≤ N := by
  cases buf with
  | cons x buf' =>
    simp only [List.cons_append, List.cons.injEq] at h
    obtain ⟨rfl, ht⟩ := h
    refine ⟨⟨buf', src⟩, ?_, ht, by simpa using hb⟩
    cases src <;> rfl
  | nil =>
    induction src with
    | nil => simp at h
    | cons seg more ih =>
      cases seg with
      | nil =>
        simp only [readByte, List.take_nil]
        exact ih (by simpa using h)
      | cons y ys =>
        simp only [List.nil_append, List.flatten_cons, List.cons_append, List.cons.injEq] at h
        obtain ⟨rfl, ht⟩ := h
        obtain ⟨n, rfl⟩ : ∃ n, N = n + 1 := ⟨N - 1, by omega⟩
        simp only [readByte, List.take_succ_cons]
        refine ⟨_, rfl, ?_, ?_⟩
        · simp only [BR.logical, List.drop_succ_cons, List.flatten_cons, ← ht]
          rw [← List.append_assoc, List.take_append_drop]
        · simp; omega

theorem skipWhiteSpace_spec (N : Nat) (hN : 1 ≤ N) (fuel : Nat) (b : BR) (hb : Inv N b)
    (hf : b.logical.length + 1 ≤ fuel) :
    (Reader.Bufio.skipWhiteSpace N fuel b).logical = Sip.skipWhiteSpace b.logical
    ∧ Inv N (Reader.Bufio.skipWhiteSpace N fuel b) := by
  induction fuel generalizing b with
  | zero => omega
  | succ f ih =>
    simp only [Reader.Bufio.skipWhiteSpace]
    cases hl : b.buf ++ b.src.flatten with
    | nil =>
      rw [readByte_nil N _ _ hl]
      simp [Sip.skipWhiteSpace, BR.logical, Inv, hl]
    | cons c t =>
      obtain ⟨b', hr, ht, hlen⟩ := readByte_cons N hN b.src b.buf hb c t hl
      have hlog : b.logical = c :: t := hl
      rw [hr]
      by_cases hw : isWhiteSpace c
      · simp only [hw, ↓reduceIte]
        have := ih b' (by unfold Inv; omega) (by rw [ht]; rw [hlog] at hf; simp at hf; omega)
        rw [this.1, ht, hlog]
        refine ⟨?_, this.2⟩
        simp [Sip.skipWhiteSpace, List.dropWhile_cons, hw]
      · simp only [hw, Bool.false_eq_true, ↓reduceIte]
        refine ⟨?_, by simpa [Inv] using hlen⟩
        rw [hlog]
        simp [Sip.skipWhiteSpace, List.dropWhile_cons, hw, BR.logical, ← ht]

theorem copyN_spec (src : List Bytes) (buf : Bytes) (n : Nat) :
    ((buf ++ src.flatten).length < n → copyN src buf n = none)
    ∧ (n ≤ (buf ++ src.flatten).length →
        ∃ b', copyN src buf n = some ((buf ++ src.flatten).take n, b')
          ∧ b'.logical = (buf ++ src.flatten).drop n ∧ b'.buf.length ≤ buf.length) := by
  fun_induction copyN src buf n with
  | case1 src buf => simp [BR.logical]
  | case2 src c buf n hfit hnone ih1 =>
    -- the whole buffer is taken, the rest comes from the connection; the rest fails
    obtain ⟨ihA, ihB⟩ := ih1
    simp only [List.nil_append] at ihA ihB
    constructor
    · intro _; rfl
    · intro hle
      exfalso
      simp only [List.length_append, List.length_cons] at hle
      rcases Nat.lt_or_ge src.flatten.length (n - buf.length) with hlt | hge
      · omega
      · obtain ⟨b', hb', _⟩ := ihB hge
        rw [hnone] at hb'; cases hb'
  | case3 src c buf n hfit out b' hsome ih1 =>
    obtain ⟨ihA, ihB⟩ := ih1
    simp only [List.nil_append] at ihA ihB
    have hge : n - buf.length ≤ src.flatten.length := by
      rcases Nat.lt_or_ge src.flatten.length (n - buf.length) with hlt | hge
      · rw [ihA hlt] at hsome; cases hsome
      · exact hge
    obtain ⟨b'', hb'', hlog, hlen⟩ := ihB hge
    rw [hsome] at hb''
    simp only [Option.some.injEq, Prod.mk.injEq] at hb''
    obtain ⟨rfl, rfl⟩ := hb''
    constructor
    · intro hlt
      simp only [List.length_append, List.length_cons] at hlt
      omega
    · intro _
      refine ⟨b', ?_, ?_, by simp at hlen; simp [hlen]⟩
      · congr 1
        simp only [Prod.mk.injEq, and_true]
        rw [List.take_append]
        have : (c :: buf).take (n + 1) = c :: buf := List.take_of_length_le (by simpa using hfit)
        rw [this]
        simp
      · rw [hlog, List.drop_append]
        have : (c :: buf).drop (n + 1) = [] := List.drop_of_length_le (by simpa using hfit)
        rw [this]
        simp
  | case4 src c buf n hfit =>
    have hlt : n + 1 ≤ buf.length + 1 := by omega
    constructor
    · intro h; simp only [List.length_append, List.length_cons] at h; omega
    · intro _
      refine ⟨⟨(c :: buf).drop (n + 1), src⟩, ?_, ?_, by simp; omega⟩
      · congr 1
        simp only [Prod.mk.injEq, and_true]
        rw [List.take_append]
        have : n + 1 - (c :: buf).length = 0 := by simp; omega
        rw [this]; simp
      · simp only [BR.logical]
        rw [List.drop_append]
        have : n + 1 - (c :: buf).length = 0 := by simp; omega
        rw [this]; simp
  | case5 n => simp
  | case6 seg more n hfit hnone ih1 =>
    obtain ⟨ihA, ihB⟩ := ih1
    simp only [List.nil_append] at ihA ihB
    constructor
    · intro _; rfl
    · intro hle
      exfalso
      simp only [List.nil_append, List.flatten_cons, List.length_append] at hle
      rcases Nat.lt_or_ge more.flatten.length (n + 1 - seg.length) with hlt | hge
      · omega
      · obtain ⟨b', hb', _⟩ := ihB hge
        rw [hnone] at hb'; cases hb'
  | case7 seg more n hfit out b' hsome ih1 =>
    obtain ⟨ihA, ihB⟩ := ih1
    simp only [List.nil_append] at ihA ihB
    have hge : n + 1 - seg.length ≤ more.flatten.length := by
      rcases Nat.lt_or_ge more.flatten.length (n + 1 - seg.length) with hlt | hge
      · rw [ihA hlt] at hsome; cases hsome
      · exact hge
    obtain ⟨b'', hb'', hlog, hlen⟩ := ihB hge
    rw [hsome] at hb''
    simp only [Option.some.injEq, Prod.mk.injEq] at hb''
    obtain ⟨rfl, rfl⟩ := hb''
    constructor
    · intro hlt
      simp only [List.nil_append, List.flatten_cons, List.length_append] at hlt
      omega
    · intro _
      refine ⟨b', ?_, ?_, by simpa using hlen⟩
      · congr 1
        simp only [Prod.mk.injEq, and_true, List.nil_append, List.flatten_cons]
        rw [List.take_append, List.take_of_length_le hfit]
      · rw [hlog]
        simp only [List.nil_append, List.flatten_cons]
        rw [List.drop_append, List.drop_of_length_le hfit]
        simp
  | case8 seg more n hfit =>
    have hlt : n + 1 ≤ seg.length := by omega
    constructor
    · intro h; simp only [List.nil_append, List.flatten_cons, List.length_append] at h; omega
    · intro _
      refine ⟨⟨[], seg.drop (n + 1) :: more⟩, ?_, ?_, by simp⟩
      · congr 1
        simp only [Prod.mk.injEq, and_true, List.nil_append, List.flatten_cons]
        rw [List.take_append]
        have : n + 1 - seg.length = 0 := by omega
        rw [this]; simp
      · simp only [BR.logical, List.nil_append, List.flatten_cons]
        rw [List.drop_append]
        have : n + 1 - seg.length = 0 := by omega
        rw [this]; simp

/-! ### ParseMessage over the operational reader = ParseMessage over the logical stream -/

theorem parseHeaderLines_spec (N : Nat) (hN : 2 ≤ N) (fuel : Nat) (b : BR) (hb : Inv N b) :
    (Reader.Bufio.parseHeaderLines N fuel b).map (fun x => (x.1, x.2.logical))
      = Sip.parseHeaderLines fuel b.logical
    ∧ ∀ x ∈ Reader.Bufio.parseHeaderLines N fuel b, Inv N x.2 := by
  induction fuel generalizing b with
  | zero => simp [Reader.Bufio.parseHeaderLines, Sip.parseHeaderLines]
  | succ f ih =>
    by_cases hlf : (10 : UInt8) ∈ b.logical
    · obtain ⟨line, b', hr, hfl, hb'⟩ := readLine_lf N hN b hb hlf
      simp only [Reader.Bufio.parseHeaderLines, Sip.parseHeaderLines, hr, hfl]
      by_cases hlen : line.length = 0
      · simp only [hlen, ↓reduceIte, Option.map_some, true_and]
        intro x hx
        simp only [Option.mem_def, Option.some.injEq] at hx
        subst hx; exact hb'
      · simp only [hlen, ↓reduceIte]
        cases hc : cut 58 line with
        | none => simp
        | some p =>
          obtain ⟨name, v⟩ := p
          obtain ⟨ih1, ih2⟩ := ih b' hb'
          simp only
          rw [← ih1]
          cases hp : Reader.Bufio.parseHeaderLines N f b' with
          | none => simp
          | some r =>
            obtain ⟨hs, b''⟩ := r
            simp only [Option.map_some, true_and]
            intro x hx
            simp only [Option.mem_def, Option.some.injEq] at hx
            subst hx
            exact ih2 (hs, b'') (by simp [hp])
    · rw [parseHeaderLines_no_lf (f + 1) b.logical hlf]
      simp only [Reader.Bufio.parseHeaderLines]
      rcases readLine_no_lf N b (by omega) hb hlf with hr | ⟨b', hr, hne, hnil, hb'⟩
      · simp [hr]
      · simp only [hr]
        have hlen : ¬ b.logical.length = 0 := by
          intro e; exact hne (List.length_eq_zero_iff.mp e)
        simp only [hlen, ↓reduceIte]
        cases hc : cut 58 b.logical with
        | none => simp
        | some p =>
          obtain ⟨ih1, _⟩ := ih b' hb'
          rw [hnil, parseHeaderLines_nil] at ih1
          cases hp : Reader.Bufio.parseHeaderLines N f b' with
          | none => simp
          | some r => rw [hp] at ih1; cases ih1

/-- the logical model rejects a stream that holds no LF once the leading white space is gone -/
theorem flat_parseMessage_no_lf (cm : List (Bytes × Bytes)) (s : Bytes)
    (hs : (10 : UInt8) ∉ Sip.skipWhiteSpace s) : Sip.parseMessage cm s = .error := by
  unfold Sip.parseMessage
  simp only
  cases hsk : Sip.skipWhiteSpace s with
  | nil => simp [Sip.readLine]
  | cons x xs =>
    rw [hsk] at hs
    simp only [readLine_of_ne_nil (x :: xs) (by simp), cut_of_not_mem 10 _ hs]
    simp only [List.length_cons, Nat.add_eq_zero_iff, Nat.succ_ne_self, and_false, ↓reduceIte,
      List.length_nil, Nat.zero_add, parseHeaderLines_no_lf 1 [] (by simp)]
    cases parseStartLine (x :: xs) <;> rfl

/-- the result of the logical model as an option -/
def flatResult : ParseResult → Option (Message × Bytes)
  | .ok m rest => some (m, rest)
  | .error => none

theorem parseMessage_spec (N : Nat) (hN : 2 ≤ N) (cm : List (Bytes × Bytes)) (b : BR) (hb : Inv N b) :
    (Reader.Bufio.parseMessage N cm b).map (fun x => (x.1, x.2.logical))
      = flatResult (Sip.parseMessage cm b.logical)
    ∧ ∀ x ∈ Reader.Bufio.parseMessage N cm b, Inv N x.2 := by
  obtain ⟨hs1, hs2⟩ := skipWhiteSpace_spec N (by omega) (b.size + 1) b hb (by simp [BR.size])
  generalize hb0 : Reader.Bufio.skipWhiteSpace N (b.size + 1) b = b0 at hs1 hs2
  by_cases hlf : (10 : UInt8) ∈ b0.logical
  · obtain ⟨first, b1, hr, hfl, hb1⟩ := readLine_lf N hN b0 hs2 hlf
    unfold Reader.Bufio.parseMessage Sip.parseMessage
    simp only [hb0, hr, ← hs1, hfl]
    by_cases hlen : first.length = 0
    · simp [hlen, flatResult]
    · simp only [hlen, ↓reduceIte]
      cases hsl : parseStartLine first with
      | none => simp [flatResult]
      | some sl =>
        simp only
        obtain ⟨hp1, hp2⟩ := parseHeaderLines_spec N hN (b1.size + 1) b1 hb1
        rw [show b1.logical.length + 1 = b1.size + 1 from rfl, ← hp1]
        cases hp : Reader.Bufio.parseHeaderLines N (b1.size + 1) b1 with
        | none => simp [flatResult]
        | some r =>
          obtain ⟨hs, b2⟩ := r
          have hb2 : Inv N b2 := hp2 (hs, b2) (by simp [hp])
          simp only [Option.map_some]
          cases hg : getHeaderInt cm { start := sl, headers := hs, body := [] } contentLengthName with
          | none => simp [flatResult]
          | some cl =>
            simp only
            by_cases hneg : cl < 0
            · simp [hneg, flatResult]
            · simp only [hneg, ↓reduceIte]
              obtain ⟨hcA, hcB⟩ := copyN_spec b2.src b2.buf cl.toNat
              by_cases hshort : b2.logical.length < cl.toNat
              · simp only [hshort, ↓reduceIte, flatResult]
                rw [hcA hshort]
                simp
              · simp only [hshort, ↓reduceIte, flatResult]
                obtain ⟨b3, hc3, hlog3, hlen3⟩ := hcB (by
                  have : b2.logical = b2.buf ++ b2.src.flatten := rfl
                  rw [← this]; omega)
                rw [hc3]
                simp only [Option.map_some, Option.some.injEq, Prod.mk.injEq, hlog3, true_and]
                refine ⟨⟨rfl, rfl⟩, ?_⟩
                intro x hx
                simp only [Option.mem_def, Option.some.injEq] at hx
                subst hx
                exact Nat.le_trans hlen3 hb2
  · have hflat : Sip.parseMessage cm b.logical = .error := flat_parseMessage_no_lf cm _ (by rw [← hs1]; exact hlf)
    rw [hflat]
    unfold Reader.Bufio.parseMessage
    simp only [hb0, flatResult]
    rcases readLine_no_lf N b0 (by omega) hs2 hlf with hr | ⟨b1, hr, hne, hnil, hb1⟩
    · simp [hr]
    · simp only [hr]
      have hlen : ¬ b0.logical.length = 0 := by
        intro e; exact hne (List.length_eq_zero_iff.mp e)
      simp only [hlen, ↓reduceIte]
      cases hsl : parseStartLine b0.logical with
      | none => simp
      | some sl =>
        simp only
        obtain ⟨hp1, _⟩ := parseHeaderLines_spec N hN (b1.size + 1) b1 hb1
        rw [hnil, parseHeaderLines_nil] at hp1
        cases hp : Reader.Bufio.parseHeaderLines N (b1.size + 1) b1 with
        | none => simp
        | some r => rw [hp] at hp1; cases hp1

/-- the per-connection loop over the operational reader extracts exactly the messages the logical
model extracts from the concatenated stream -/
theorem connLoop_spec (N : Nat) (hN : 2 ≤ N) (cm : List (Bytes × Bytes)) (fuel : Nat) (b : BR)
    (hb : Inv N b) :
    Reader.Bufio.connLoop N cm fuel b = Reader.connLoopAux cm fuel b.logical := by
  induction fuel generalizing b with
  | zero => rfl
  | succ f ih =>
    obtain ⟨h1, h2⟩ := parseMessage_spec N hN cm b hb
    simp only [Reader.Bufio.connLoop, Reader.connLoopAux]
    cases hp : Reader.Bufio.parseMessage N cm b with
    | none =>
      rw [hp] at h1
      cases hf : Sip.parseMessage cm b.logical with
      | error => rfl
      | ok m rest => rw [hf] at h1; simp [flatResult] at h1
    | some r =>
      obtain ⟨m, b'⟩ := r
      rw [hp] at h1
      cases hf : Sip.parseMessage cm b.logical with
      | error => rw [hf] at h1; simp [flatResult] at h1
      | ok m' rest =>
        rw [hf] at h1
        simp only [Option.map_some, flatResult, Option.some.injEq, Prod.mk.injEq] at h1
        obtain ⟨rfl, rfl⟩ := h1
        simp only [BR.size]
        rw [ih b' (h2 (m, b') (by simp [hp]))]
        rfl

end Lemmas.Bufio
