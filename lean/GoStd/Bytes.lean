/-
GoStd.Bytes — Go strings are byte sequences. One total definition per Go
standard-library function the modelled code calls, with Go's corner behaviour.
Core Lean only (this file is linked into the driver).
-/
namespace GoStd

abbrev Bytes := List UInt8

/-- ASCII string literal to bytes (model constants such as "Via"). -/
def str (s : String) : Bytes := s.toUTF8.toList

def hexDigit (n : Nat) : Char :=
  if n < 10 then Char.ofNat (48 + n) else Char.ofNat (87 + n)

def toHex (b : Bytes) : String :=
  String.ofList (b.flatMap fun x => [hexDigit (x.toNat / 16), hexDigit (x.toNat % 16)])

def hexVal (c : Char) : Option Nat :=
  if '0' ≤ c ∧ c ≤ '9' then some (c.toNat - 48)
  else if 'a' ≤ c ∧ c ≤ 'f' then some (c.toNat - 87)
  else if 'A' ≤ c ∧ c ≤ 'F' then some (c.toNat - 55)
  else none

def fromHexChars : List Char → Option Bytes
  | [] => some []
  | [_] => none
  | a :: b :: rest =>
    match hexVal a, hexVal b, fromHexChars rest with
    | some x, some y, some r => some (UInt8.ofNat (x * 16 + y) :: r)
    | _, _, _ => none

/-- "-" denotes the empty byte string on the op lines (so fields never vanish). -/
def fromHex (s : String) : Option Bytes :=
  if s = "-" then some [] else fromHexChars s.toList

def toHexField (b : Bytes) : String := if b.isEmpty then "-" else toHex b

/-! ### strings.IndexByte / slicing, as a cut -/

/-- `cut c s = some (s[0:pos], s[pos+1:])` where `pos = strings.IndexByte(s, c)`, `none` when pos = -1. -/
def cut (c : UInt8) : Bytes → Option (Bytes × Bytes)
  | [] => none
  | b :: bs =>
    if b = c then some ([], bs)
    else match cut c bs with
      | none => none
      | some (l, r) => some (b :: l, r)

/-- `strings.LastIndex(s, c)` as a cut at the last occurrence. -/
def cutLast (c : UInt8) : Bytes → Option (Bytes × Bytes)
  | [] => none
  | b :: bs =>
    match cutLast c bs with
    | some (l, r) => some (b :: l, r)
    | none => if b = c then some ([], bs) else none

def contains (c : UInt8) (s : Bytes) : Bool := s.any (· == c)

/-- `strings.Split(s, sep)` for a one-byte separator: n separators give n+1 parts; `split "" = [""]`. -/
def split (c : UInt8) : Bytes → List Bytes
  | [] => [[]]
  | b :: bs =>
    if b = c then [] :: split c bs
    else match split c bs with
      | [] => [[b]]
      | p :: ps => (b :: p) :: ps

/-- `strings.Join(parts, sep)` for a byte-string separator. -/
def join (sep : Bytes) : List Bytes → Bytes
  | [] => []
  | [p] => p
  | p :: q :: ps => p ++ sep ++ join sep (q :: ps)

def hasPrefix (p s : Bytes) : Bool := p.isPrefixOf s

def hasSuffix (p s : Bytes) : Bool := p.reverse.isPrefixOf s.reverse

/-! ### Go white space (strings.TrimSpace / strings.Fields)

`unicode.IsSpace` accepts '\t' '\n' '\v' '\f' '\r' ' ' U+0085 U+00A0 U+1680 U+2000..U+200A
U+2028 U+2029 U+202F U+205F U+3000.  All of them have exactly one valid UTF-8 encoding whose
continuation bytes are in 0x80..0xBF, Go's decoder reports every other (invalid, overlong)
sequence as U+FFFD width 1, and no pattern starts with a continuation byte; hence "a space rune
starts here" is exactly "one of these byte patterns is a prefix here" (validated against the
real library by correspondence stream `std`). -/

def isAsciiSpace (b : UInt8) : Bool :=
  b == 9 || b == 10 || b == 11 || b == 12 || b == 13 || b == 32

/-- Width of the white-space rune encoded at the head of `s`, 0 when there is none. -/
def spaceTokLen : Bytes → Nat
  | [] => 0
  | b :: rest =>
    if isAsciiSpace b then 1
    else if b == 0xC2 then
      match rest with
      | c :: _ => if c == 0x85 || c == 0xA0 then 2 else 0
      | _ => 0
    else if b == 0xE1 then
      match rest with
      | c :: d :: _ => if c == 0x9A && d == 0x80 then 3 else 0
      | _ => 0
    else if b == 0xE2 then
      match rest with
      | c :: d :: _ =>
        if c == 0x80 && ((0x80 ≤ d && d ≤ 0x8A) || d == 0xA8 || d == 0xA9 || d == 0xAF) then 3
        else if c == 0x81 && d == 0x9F then 3 else 0
      | _ => 0
    else if b == 0xE3 then
      match rest with
      | c :: d :: _ => if c == 0x80 && d == 0x80 then 3 else 0
      | _ => 0
    else 0

/-- Width of the white-space rune that ends at the head of the *reversed* string. -/
def spaceTokLenRev : Bytes → Nat
  | [] => 0
  | b :: rest =>
    if isAsciiSpace b then 1
    else match rest with
      | c :: rest2 =>
        if c == 0xC2 && (b == 0x85 || b == 0xA0) then 2
        else match rest2 with
          | d :: _ =>
            if d == 0xE1 && c == 0x9A && b == 0x80 then 3
            else if d == 0xE2 && c == 0x80 && ((0x80 ≤ b && b ≤ 0x8A) || b == 0xA8 || b == 0xA9 || b == 0xAF) then 3
            else if d == 0xE2 && c == 0x81 && b == 0x9F then 3
            else if d == 0xE3 && c == 0x80 && b == 0x80 then 3
            else 0
          | [] => 0
      | [] => 0

/-- Strip white-space runes from the left (fuel = length suffices; structural on fuel). -/
def trimLeftAux : Nat → Bytes → Bytes
  | 0, s => s
  | fuel + 1, s =>
    let k := spaceTokLen s
    if k = 0 then s else trimLeftAux fuel (s.drop k)

def trimLeft (s : Bytes) : Bytes := trimLeftAux s.length s

def trimRightRevAux : Nat → Bytes → Bytes
  | 0, s => s
  | fuel + 1, s =>
    let k := spaceTokLenRev s
    if k = 0 then s else trimRightRevAux fuel (s.drop k)

def trimRight (s : Bytes) : Bytes := (trimRightRevAux s.length s.reverse).reverse

/-- `strings.TrimSpace`. -/
def trimSpace (s : Bytes) : Bytes := trimRight (trimLeft s)

/-- `strings.Fields`: maximal runs of non-space bytes. `cur` is the current field, reversed. -/
def fieldsAux : Nat → Bytes → Bytes → List Bytes
  | 0, _, cur => if cur.isEmpty then [] else [cur.reverse]
  | _ + 1, [], cur => if cur.isEmpty then [] else [cur.reverse]
  | fuel + 1, b :: rest, cur =>
    let k := spaceTokLen (b :: rest)
    if k = 0 then fieldsAux fuel rest (b :: cur)
    else
      let tl := fieldsAux fuel ((b :: rest).drop k) []
      if cur.isEmpty then tl else cur.reverse :: tl

def fields (s : Bytes) : List Bytes := fieldsAux (s.length + 1) s []

/-! ### case folding (ASCII; only ever applied to header names and protocol tokens) -/

def lowerByte (b : UInt8) : UInt8 := if 65 ≤ b && b ≤ 90 then b + 32 else b

def toLower (s : Bytes) : Bytes := s.map lowerByte

/-- `strings.EqualFold` restricted to ASCII letters (non-ASCII names are outside every domain). -/
def equalFold (a b : Bytes) : Bool := toLower a == toLower b

/-! ### strconv -/

def isDigit (b : UInt8) : Bool := 48 ≤ b && b ≤ 57

def digitsVal (ds : Bytes) : Nat := ds.foldl (fun acc d => acc * 10 + (d.toNat - 48)) 0

/-- optional sign of `strconv.Atoi` -/
def splitSign : Bytes → Bool × Bytes
  | 43 :: r => (false, r)
  | 45 :: r => (true, r)
  | s => (false, s)

def atoiDigits (neg : Bool) (ds : Bytes) : Option Int :=
  if ds.isEmpty then none
  else if !(ds.all isDigit) then none
  else
    let v := digitsVal ds
    if neg then (if v ≤ 9223372036854775808 then some (-(Int.ofNat v)) else none)
    else (if v ≤ 9223372036854775807 then some (Int.ofNat v) else none)

/-- `strconv.Atoi`: optional sign, at least one digit, digits only, value inside int64. -/
def atoi (s : Bytes) : Option Int := atoiDigits (splitSign s).1 (splitSign s).2

def natDigitsAux : Nat → Nat → Bytes → Bytes
  | 0, _, acc => acc
  | fuel + 1, n, acc =>
    let acc' := UInt8.ofNat (48 + n % 10) :: acc
    if n / 10 = 0 then acc' else natDigitsAux fuel (n / 10) acc'

/-- decimal digits of a natural number (`%d`). -/
def natToBytes (n : Nat) : Bytes := natDigitsAux (n + 1) n []

/-- `%d` / `strconv.Itoa` of an int. -/
def itoa (i : Int) : Bytes :=
  match i with
  | Int.ofNat n => natToBytes n
  | Int.negSucc n => 45 :: natToBytes (n + 1)

/-- `net.JoinHostPort(host, itoa port)`: brackets when host contains ':'. -/
def joinHostPort (host : Bytes) (port : Int) : Bytes :=
  if contains 58 host then [91] ++ host ++ [93, 58] ++ itoa port
  else host ++ [58] ++ itoa port

end GoStd
