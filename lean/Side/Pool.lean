/-
Side.Pool — ByteArrayPool (byte_array_pool.go): a stack of buffer identities.
-/
namespace Side.Pool

abbrev BufId := Nat

structure St where
  maxCap : Nat
  pool : List BufId       -- top of the stack = last element
  fresh : BufId           -- next identity `make` would create
  deriving Repr, DecidableEq

/-- `Alloc`: pop the last pooled buffer, or make a new one. -/
def alloc (s : St) : St × BufId :=
  match s.pool.getLast? with
  | none => ({ s with fresh := s.fresh + 1 }, s.fresh)
  | some b => ({ s with pool := s.pool.dropLast }, b)

/-- `Free`: keep the buffer unless the pool is at capacity (an empty pool always keeps it). -/
def free (s : St) (b : BufId) : St :=
  let n := s.pool.length
  if n = 0 ∨ n < s.maxCap then { s with pool := s.pool ++ [b] } else s

end Side.Pool
