/-
Side.Failover — transport.go FailOverClientTransport.Send / TCPClientTransport.Send and
backend.go TCPBackend.Send over scripted connections and dial outcomes (fault oracles).
The log records every write attempt with its outcome.
-/
import GoStd.Bytes
open GoStd

namespace Side.FO

abbrev ConnId := Nat
abbrev MsgId := Nat

inductive Dial where
  | refuse
  | conn (c : ConnId)
  deriving Repr, DecidableEq

/-- Fault oracle: per connection the outcomes of its successive writes (true = nil error; a
connection with an exhausted script fails), and the outcomes of successive dials. -/
structure World where
  writes : List (ConnId × List Bool)
  dials : List Dial
  deriving Repr, DecidableEq

structure LogEntry where
  conn : ConnId
  msg : MsgId
  ok : Bool
  deriving Repr, DecidableEq

def popWrite (ws : List (ConnId × List Bool)) (c : ConnId) : List (ConnId × List Bool) × Bool :=
  match ws with
  | [] => ([], false)
  | (c', s) :: rest =>
    if c' = c then
      match s with
      | [] => ((c', []) :: rest, false)
      | b :: bs => ((c', bs) :: rest, b)
    else
      let (rest', r) := popWrite rest c
      ((c', s) :: rest', r)

def World.write (w : World) (c : ConnId) : World × Bool :=
  let (ws, r) := popWrite w.writes c
  ({ w with writes := ws }, r)

def World.dial (w : World) : World × Dial :=
  match w.dials with
  | [] => (w, .refuse)
  | d :: ds => ({ w with dials := ds }, d)

/-- retry bound of both Send loops (F3 constant, expected 2). -/
def retries : Nat := 2

structure TcpClient where
  reconnectable : Bool
  conn : Option ConnId
  deriving Repr, DecidableEq

/-- outcome of the "make sure there is a connection" part of one loop iteration -/
inductive Acq where
  | refused (w : World)              -- dial failed and Send returns the error at once
  | noConn (w : World)               -- still no connection: `continue`
  | conn (w : World) (c : ConnId)

/-- `if t.conn == nil && t.reconnectable { dial … return err on failure }` -/
def clientAcquire (w : World) (t : TcpClient) : Acq :=
  match t.conn with
  | some c => .conn w c
  | none =>
    if t.reconnectable then
      match w.dial with
      | (w', .refuse) => .refused w'
      | (w', .conn c) => .conn w' c
    else .noConn w

/-- `TCPClientTransport.Send`: `for i := 0; i < 2; i++`. A refused dial returns the error at once. -/
def tcpClientSendLoop : Nat → World → TcpClient → MsgId → List LogEntry → World × TcpClient × Bool × List LogEntry
  | 0, w, t, _, log => (w, t, false, log)
  | fuel + 1, w, t, m, log =>
    match clientAcquire w t with
    | .refused w1 => (w1, t, false, log)
    | .noConn w1 => tcpClientSendLoop fuel w1 t m log
    | .conn w1 c =>
      match w1.write c with
      | (w2, true) => (w2, { t with conn := some c }, true, log ++ [{ conn := c, msg := m, ok := true }])
      | (w2, false) => tcpClientSendLoop fuel w2 { t with conn := none } m (log ++ [{ conn := c, msg := m, ok := false }])

def tcpClientSend (w : World) (t : TcpClient) (m : MsgId) : World × TcpClient × Bool × List LogEntry :=
  tcpClientSendLoop retries w t m []

/-- `if t.conn == nil { t.connect() }`: a refused dial only leaves the connection nil. -/
def backendAcquire (w : World) (c : Option ConnId) : Acq :=
  match c with
  | some x => .conn w x
  | none =>
    match w.dial with
    | (w', .refuse) => .noConn w'
    | (w', .conn x) => .conn w' x

/-- `TCPBackend.Send`: same loop, but a refused dial only skips the iteration. -/
def tcpBackendSendLoop : Nat → World → Option ConnId → MsgId → List LogEntry → World × Option ConnId × Bool × List LogEntry
  | 0, w, c, _, log => (w, c, false, log)
  | fuel + 1, w, c, m, log =>
    match backendAcquire w c with
    | .refused w1 => (w1, c, false, log)
    | .noConn w1 => tcpBackendSendLoop fuel w1 none m log
    | .conn w1 x =>
      match w1.write x with
      | (w2, true) => (w2, some x, true, log ++ [{ conn := x, msg := m, ok := true }])
      | (w2, false) => tcpBackendSendLoop fuel w2 none m (log ++ [{ conn := x, msg := m, ok := false }])

def tcpBackendSend (w : World) (c : Option ConnId) (m : MsgId) : World × Option ConnId × Bool × List LogEntry :=
  tcpBackendSendLoop retries w c m []

/-- `FailOverClientTransport{primary, secondary}`. -/
structure FailOver where
  primary : Option TcpClient
  secondary : Option TcpClient
  deriving Repr, DecidableEq

def failOverSend (w : World) (f : FailOver) (m : MsgId) : World × FailOver × Bool × List LogEntry :=
  match f.primary with
  | some p =>
    let (w1, p1, ok, log) := tcpClientSend w p m
    if ok then (w1, { f with primary := some p1 }, true, log)
    else
      match f.secondary with
      | some s =>
        let (w2, s2, ok2, log2) := tcpClientSend w1 s m
        (w2, { primary := none, secondary := some s2 }, ok2, log ++ log2)
      | none => (w1, { f with primary := none }, false, log)
  | none =>
    match f.secondary with
    | some s =>
      let (w2, s2, ok2, log2) := tcpClientSend w s m
      (w2, { f with secondary := some s2 }, ok2, log2)
    | none => (w, f, false, [])

def completed (log : List LogEntry) (m : MsgId) : List LogEntry := log.filter (fun e => e.msg == m && e.ok)

end Side.FO
