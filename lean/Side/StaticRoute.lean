/-
Side.StaticRoute — preconfig_route.go: NewPreRouteItem, AddRouteItem, FindRoute.
The table is the Go map plus the insertion order of its keys (scan order of the wildcard pass).
`glob` stands for Go's regexp on `^` + escape('.') + ('*' ↦ `.*`) + `$` over the pattern universe
[A-Za-z0-9._*-] (assumption validated exhaustively by stream `route`, see DESIGN section 8).
-/
import GoStd.Bytes
open GoStd

namespace Side.SR

structure Item where
  protocol : Bytes
  dest : Bytes
  host : Bytes
  port : Int
  deriving Repr, DecidableEq

/-- insertion-ordered; at most one item per `dest` (a later add overwrites in place). -/
abbrev Table := List Item

/-- `NewPreRouteItem(protocol, dest, nextHop)`. -/
def newItem (protocol dest nextHop : Bytes) : Option Item :=
  match cutLast 58 nextHop with
  | none => some { protocol := protocol, dest := dest, host := nextHop,
                   port := if equalFold (str "tls") protocol then 5061 else 5060 }
  | some (h, p) =>
    match atoi p with
    | none => none
    | some n => some { protocol := protocol, dest := dest, host := h, port := n }

def insert (t : Table) (it : Item) : Table :=
  if t.any (fun x => x.dest == it.dest) then t.map (fun x => if x.dest == it.dest then it else x)
  else t ++ [it]

/-- `AddRouteItem`: on a malformed next hop nothing is added. -/
def addRouteItem (t : Table) (protocol dest nextHop : Bytes) : Table :=
  match newItem protocol dest nextHop with
  | none => t
  | some it => insert t it

/-- all suffixes of a byte string, longest first -/
def suffixes : Bytes → List Bytes
  | [] => [[]]
  | b :: bs => (b :: bs) :: suffixes bs

/-- '*' = any byte sequence, every other byte itself (structural recursion on the pattern). -/
def glob : Bytes → Bytes → Bool
  | [], h => h.isEmpty
  | p :: ps, h =>
    if p == 42 then (suffixes h).any (glob ps)
    else match h with
      | [] => false
      | d :: ds => p == d && glob ps ds

def lookupExact (t : Table) (host : Bytes) : Option Item := t.find? (fun x => x.dest == host)

/-- `FindRoute(dest)`: exact hit, else first matching pattern in insertion order, else `default`. -/
def findRoute (t : Table) (host : Bytes) : Option Item :=
  match lookupExact t host with
  | some it => some it
  | none =>
    match t.find? (fun x => glob x.dest host) with
    | some it => some it
    | none => lookupExact t (str "default")

end Side.SR
