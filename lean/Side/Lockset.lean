/-
Side.Lockset — an operational model of threads (goroutines) with mutexes, and the syntactic
lock-set discipline that gives the regenerated ACCESS TABLE of property C09 its meaning.

The table lists every read/write of a field of a shared structure together with the set of
mutexes syntactically held at that point. This file defines

  * programs (`List Action`), systems (`List Prog`), states, and the interleaving step relation
    with Go `sync.Mutex` semantics (`Step`, `Reachable`);
  * the syntactic held-set `held prog pc` (a fold: `acq` adds, `rel` removes);
  * `DataRace` (two different threads whose NEXT actions are conflicting accesses);
  * the purely syntactic conditions `WellBracketed`, `Disciplined`, `LockOrder`, `Balanced`;
  * the table shape (`AccessRow`, `TableDisciplined`, `Describes`) and Boolean checkers.

The theorems (lock-set discipline ⇒ no reachable data race, lock order ⇒ no deadlock, table ⇒
discipline) are in `Props/C09.lean`; helper lemmas in `Lemmas/Lockset.lean`.
Core Lean only (no Mathlib).
-/
set_option autoImplicit false
namespace Side.Lockset

abbrev Lock := Nat
abbrev Loc := Nat
abbrev ThreadId := Nat

/-- What a thread can do that matters for races: lock, unlock, touch a shared location. -/
inductive Action
  | acq (l : Lock)
  | rel (l : Lock)
  | access (x : Loc) (write : Bool)
  deriving DecidableEq, Repr

/-- A thread program is a straight line of actions (one path through the code; a system may
contain one thread per path, the theorems hold for any finite number of threads). -/
abbrev Prog := List Action

/-- A system: finitely many threads, thread `t` runs `sys[t]`. -/
abbrev Sys := List Prog

/-- The program of thread `t` (the empty program for thread ids beyond the system). -/
def progOf (sys : Sys) (t : ThreadId) : Prog := sys[t]?.getD []

/-- A state: each thread's program counter and each lock's current holder. -/
structure State where
  pc : ThreadId → Nat
  holder : Lock → Option ThreadId

/-- Initially every thread is at position 0 and no lock is held. -/
def init : State := ⟨fun _ => 0, fun _ => none⟩

/-- pointwise update of a function on `Nat` -/
def upd {β : Type} (f : Nat → β) (k : Nat) (v : β) : Nat → β := fun i => if i = k then v else f i

/-- The next action of thread `t` (`none` when the thread has finished). -/
def next (sys : Sys) (σ : State) (t : ThreadId) : Option Action := (progOf sys t)[σ.pc t]?

/-- thread `t` moves past its current action -/
def advance (σ : State) (t : ThreadId) : ThreadId → Nat := upd σ.pc t (σ.pc t + 1)

/--
One step of one thread; any interleaving of enabled steps is allowed.

Go `sync.Mutex` semantics:
  * `acq l` (`Lock`) is enabled only when nobody holds `l`; the thread becomes the holder
    (a thread that re-locks a mutex it holds blocks forever, like in Go);
  * `rel l` (`Unlock`) is enabled when SOMEBODY holds `l` — a Go mutex is not tied to the
    goroutine that locked it, so an unlock by a non-holder frees the lock too. This is the
    permissive (adversarial) choice: it is exactly what makes the `WellBracketed` hypothesis of
    the main theorem necessary (see `Props.C09.C09_unbracketed_races`). Unlocking a free mutex is
    a fatal runtime error in Go; here that step is simply not enabled (the thread stops);
  * `access` is always enabled and changes nothing but the program counter.
-/
inductive Step (sys : Sys) (σ : State) : State → Prop
  | acq (t : ThreadId) (l : Lock) :
      next sys σ t = some (.acq l) → σ.holder l = none →
      Step sys σ ⟨advance σ t, upd σ.holder l (some t)⟩
  | rel (t : ThreadId) (l : Lock) (u : ThreadId) :
      next sys σ t = some (.rel l) → σ.holder l = some u →
      Step sys σ ⟨advance σ t, upd σ.holder l none⟩
  | access (t : ThreadId) (x : Loc) (w : Bool) :
      next sys σ t = some (.access x w) →
      Step sys σ ⟨advance σ t, σ.holder⟩

/-- States reachable from `init` by any number of steps. -/
inductive Reachable (sys : Sys) : State → Prop
  | init : Reachable sys init
  | step {σ σ' : State} : Reachable sys σ → Step sys σ σ' → Reachable sys σ'

/-! ### Executable stepping (to exhibit concrete reachable states) -/

/-- Thread `t` takes its next step if it is enabled. -/
def stepFn (sys : Sys) (σ : State) (t : ThreadId) : Option State :=
  match next sys σ t with
  | some (.acq l) =>
      if (σ.holder l).isNone then some ⟨advance σ t, upd σ.holder l (some t)⟩ else none
  | some (.rel l) =>
      if (σ.holder l).isSome then some ⟨advance σ t, upd σ.holder l none⟩ else none
  | some (.access _ _) => some ⟨advance σ t, σ.holder⟩
  | none => none

/-- Run a schedule (the list of thread ids that step, in order); `none` if some step is not
enabled. -/
def run (sys : Sys) : State → List ThreadId → Option State
  | σ, [] => some σ
  | σ, t :: ts => (stepFn sys σ t).bind fun σ' => run sys σ' ts

/-! ### The syntactic held-set -/

/-- effect of one action on the syntactic lock set -/
def stepHeld (H : List Lock) : Action → List Lock
  | .acq l => l :: H
  | .rel l => H.filter (· != l)
  | .access _ _ => H

/-- The locks syntactically held after executing the first `pc` actions of `P`. -/
def held (P : Prog) (pc : Nat) : List Lock := (P.take pc).foldl stepHeld []

/-! ### Data races and the lock-set discipline -/

/-- Two different threads whose NEXT actions are both accesses to the same location, at least one
a write. Both are enabled at once (accesses are always enabled), so they can happen in either
order with nothing in between. -/
def DataRace (sys : Sys) (σ : State) : Prop :=
  ∃ t₁ t₂ x w₁ w₂, t₁ ≠ t₂ ∧
    next sys σ t₁ = some (.access x w₁) ∧ next sys σ t₂ = some (.access x w₂) ∧
    (w₁ || w₂) = true

/-- A program never re-acquires a lock it (syntactically) holds and never releases a lock it does
not hold. -/
def WellBracketedProg (P : Prog) : Prop :=
  ∀ pc l, (P[pc]? = some (.acq l) → l ∉ held P pc) ∧ (P[pc]? = some (.rel l) → l ∈ held P pc)

def WellBracketed (sys : Sys) : Prop := ∀ P ∈ sys, WellBracketedProg P

/-- The lock-set discipline, purely syntactic: any two conflicting accesses (same location, one
of them a write) at any two positions of two different threads are made with a common lock in
the syntactic held-sets. -/
def Disciplined (sys : Sys) : Prop :=
  ∀ t₁ t₂ p₁ p₂ x w₁ w₂, t₁ ≠ t₂ →
    (progOf sys t₁)[p₁]? = some (.access x w₁) →
    (progOf sys t₂)[p₂]? = some (.access x w₂) →
    (w₁ || w₂) = true →
    ∃ l, l ∈ held (progOf sys t₁) p₁ ∧ l ∈ held (progOf sys t₂) p₂

/-! ### Lock order and deadlock -/

/-- Some thread acquires `l₂` at a position where it syntactically holds `l₁`. -/
def Nested (sys : Sys) (l₁ l₂ : Lock) : Prop :=
  ∃ t pc, (progOf sys t)[pc]? = some (.acq l₂) ∧ l₁ ∈ held (progOf sys t) pc

/-- `rank` witnesses that the nesting relation is acyclic: it strictly increases along every
nested acquisition. (In particular no thread re-acquires a lock it holds.) -/
def LockOrder (sys : Sys) (rank : Lock → Nat) : Prop :=
  ∀ l₁ l₂, Nested sys l₁ l₂ → rank l₁ < rank l₂

/-- Every program has released everything when it ends. -/
def Balanced (sys : Sys) : Prop := ∀ P ∈ sys, held P P.length = []

def Unfinished (sys : Sys) (σ : State) (t : ThreadId) : Prop := σ.pc t < (progOf sys t).length

/-- Thread `t` is blocked: its next action acquires `l`, which `u` holds. -/
def Waits (sys : Sys) (σ : State) (t : ThreadId) (l : Lock) (u : ThreadId) : Prop :=
  next sys σ t = some (.acq l) ∧ σ.holder l = some u

/-- A deadlock: a non-empty set of threads each of which waits for a lock held by a member of
the set (a closed wait-for set; it contains a wait-for cycle). The rest of the system may still
be running. A thread waiting for itself counts. -/
def Deadlock (sys : Sys) (σ : State) : Prop :=
  ∃ S : List ThreadId, S ≠ [] ∧ ∀ t ∈ S, ∃ l u, Waits sys σ t l u ∧ u ∈ S

/-- The whole-system deadlock of the property text: some thread is unfinished and every
unfinished thread waits for a lock held by an unfinished (hence also waiting) thread. -/
def TotalDeadlock (sys : Sys) (σ : State) : Prop :=
  (∃ t, Unfinished sys σ t) ∧
  ∀ t, Unfinished sys σ t → ∃ l u, Waits sys σ t l u ∧ Unfinished sys σ u

/-- Nothing can move although some thread has not finished. -/
def Stuck (sys : Sys) (σ : State) : Prop :=
  (∃ t, Unfinished sys σ t) ∧ ∀ σ', ¬ Step sys σ σ'

/-! ### Table-shaped facts -/

/-- One row of the access table: location, read/write, the locks syntactically held, and the
thread (goroutine class) whose code contains the access. -/
structure AccessRow where
  loc : Loc
  write : Bool
  locks : List Lock
  thread : Nat
  deriving DecidableEq, Repr

/-- Two rows are compatible unless they conflict (same location, one write) without sharing a
lock. -/
def rowsOK (r₁ r₂ : AccessRow) : Bool :=
  r₁.loc != r₂.loc || !(r₁.write || r₂.write) || r₁.locks.any (fun l => r₂.locks.contains l)

/-- Any two rows of DIFFERENT threads on the same location with a write share a lock. -/
def TableDisciplined (rows : List AccessRow) : Bool :=
  rows.all fun r₁ => rows.all fun r₂ => r₁.thread == r₂.thread || rowsOK r₁ r₂

/-- The stricter check for code that may run in several goroutines at once (one row can be
executed by many threads): ANY two rows, including a row with itself, are compatible. So every
written location has a lock common to all its rows. -/
def TableDisciplinedAll (rows : List AccessRow) : Bool :=
  rows.all fun r₁ => rows.all fun r₂ => rowsOK r₁ r₂

/-- Every access position of every thread is described by a row of the table carrying that
thread's id: right location and kind, and the row's locks are syntactically held there. -/
def Describes (rows : List AccessRow) (sys : Sys) : Prop :=
  ∀ t pc x w, (progOf sys t)[pc]? = some (.access x w) →
    ∃ r ∈ rows, r.loc = x ∧ r.write = w ∧ r.thread = t ∧ ∀ l ∈ r.locks, l ∈ held (progOf sys t) pc

/-- Like `Describes` but the row's `thread` column is only a label (a function name): many
threads may execute the code a row stands for. -/
def DescribesAny (rows : List AccessRow) (sys : Sys) : Prop :=
  ∀ t pc x w, (progOf sys t)[pc]? = some (.access x w) →
    ∃ r ∈ rows, r.loc = x ∧ r.write = w ∧ ∀ l ∈ r.locks, l ∈ held (progOf sys t) pc

/-- The general form, for tables whose `thread` column is a goroutine ROLE: `multi r = true` says
that several threads may run role `r` at once (e.g. one message loop per listener), so its rows
must also be compatible with each other and with themselves; rows of one single-instance role
are exempt (one thread is sequential). `TableDisciplined` is the case `multi = fun _ => false`,
`TableDisciplinedAll` the case `multi = fun _ => true`. -/
def TableDisciplinedRoles (multi : Nat → Bool) (rows : List AccessRow) : Bool :=
  rows.all fun r₁ => rows.all fun r₂ =>
    (r₁.thread == r₂.thread && !multi r₁.thread) || rowsOK r₁ r₂

/-- Every access position of thread `t` is described by a row of role `role t`. -/
def DescribesRoles (role : ThreadId → Nat) (rows : List AccessRow) (sys : Sys) : Prop :=
  ∀ t pc x w, (progOf sys t)[pc]? = some (.access x w) →
    ∃ r ∈ rows, r.loc = x ∧ r.write = w ∧ r.thread = role t ∧
      ∀ l ∈ r.locks, l ∈ held (progOf sys t) pc

/-- A role that is not `multi` is run by at most one thread of the system. -/
def SingleInstance (multi : Nat → Bool) (role : ThreadId → Nat) (sys : Sys) : Prop :=
  ∀ t₁ t₂, t₁ < sys.length → t₂ < sys.length → role t₁ = role t₂ → multi (role t₁) = false → t₁ = t₂

/-! ### Boolean checkers for concrete systems (soundness proved in `Lemmas/Lockset.lean`) -/

/-- the access rows of one program -/
def progRows (t : ThreadId) (P : Prog) : List AccessRow :=
  (List.range P.length).filterMap fun pc =>
    match P[pc]? with
    | some (Action.access x w) => some ⟨x, w, held P pc, t⟩
    | _ => none

/-- the access table of a system, computed from the programs themselves -/
def sysRows (sys : Sys) : List AccessRow :=
  (List.range sys.length).flatMap fun t => progRows t (progOf sys t)

def disciplinedB (sys : Sys) : Bool := TableDisciplined (sysRows sys)

/-- Does the table describe the system (roles given by `role`)? Every computed access row is
matched by a table row with the same location, kind and role whose locks are all held. -/
def describesRolesB (role : ThreadId → Nat) (rows : List AccessRow) (sys : Sys) : Bool :=
  (sysRows sys).all fun a => rows.any fun r =>
    r.loc == a.loc && r.write == a.write && r.thread == role a.thread &&
      r.locks.all fun l => a.locks.contains l

def describesB (rows : List AccessRow) (sys : Sys) : Bool := describesRolesB (fun t => t) rows sys

def singleInstanceB (multi : Nat → Bool) (role : ThreadId → Nat) (sys : Sys) : Bool :=
  (List.range sys.length).all fun t₁ => (List.range sys.length).all fun t₂ =>
    role t₁ != role t₂ || multi (role t₁) || t₁ == t₂

def wellBracketedProgB (P : Prog) : Bool :=
  (List.range P.length).all fun pc =>
    match P[pc]? with
    | some (Action.acq l) => !(held P pc).contains l
    | some (Action.rel l) => (held P pc).contains l
    | _ => true

def wellBracketedB (sys : Sys) : Bool := sys.all wellBracketedProgB

def lockOrderProgB (rank : Lock → Nat) (P : Prog) : Bool :=
  (List.range P.length).all fun pc =>
    match P[pc]? with
    | some (Action.acq l₂) => (held P pc).all fun l₁ => decide (rank l₁ < rank l₂)
    | _ => true

def lockOrderB (sys : Sys) (rank : Lock → Nat) : Bool := sys.all (lockOrderProgB rank)

def balancedB (sys : Sys) : Bool := sys.all fun P => (held P P.length).isEmpty

/-- Is the state a data race? (threads of the system only; others have no actions) -/
def dataRaceB (sys : Sys) (σ : State) : Bool :=
  (List.range sys.length).any fun t₁ => (List.range sys.length).any fun t₂ =>
    t₁ != t₂ &&
    match next sys σ t₁, next sys σ t₂ with
    | some (Action.access x w₁), some (Action.access y w₂) => x == y && (w₁ || w₂)
    | _, _ => false

end Side.Lockset
