/-
Side.Pins — DialogBasedBackend (backend.go:406-464): key ↦ (backend, expiry) with lazy expiry and a
periodic sweep. Time is an explicit argument in nanoseconds (Nat): on the property's domain
(Expires ≤ 2^31-1) nothing overflows int64 and the float comparison in AddBackend is exact for
whole-second timeouts (DESIGN section 7, C15).
-/
import GoStd.Bytes
open GoStd

namespace Side.Pins

abbrev Key := Bytes
abbrev Backend := Bytes

structure Entry where
  key : Key
  backend : Backend
  expire : Nat
  deriving Repr, DecidableEq

structure St where
  timeout : Nat            -- ns
  entries : List Entry     -- at most one per key
  nextClean : Nat
  deriving Repr, DecidableEq

def second : Nat := 1000000000

def init (timeout now : Nat) : St := { timeout := timeout, entries := [], nextClean := now + timeout }

def eraseKey (es : List Entry) (k : Key) : List Entry := es.filter (fun e => e.key != k)

/-- lifetime granted by `AddBackend(dialog, backend, expireSeconds)`. -/
def lifetime (timeout : Nat) (expireSeconds : Int) : Nat :=
  if expireSeconds > 0 ∧ expireSeconds.toNat * second > timeout then expireSeconds.toNat * second else timeout

/-- `AddBackend`: store, and when the sweep is due re-arm it one timeout ahead and drop expired entries. -/
def add (s : St) (k : Key) (b : Backend) (expireSeconds : Int) (now : Nat) : St :=
  let expire := now + lifetime s.timeout expireSeconds
  let es := eraseKey s.entries k ++ [{ key := k, backend := b, expire := expire }]
  if s.nextClean < now then
    { s with entries := es.filter (fun e => !(e.expire < now)), nextClean := now + s.timeout }
  else { s with entries := es }

/-- `GetBackend`: only unexpired entries are honoured; an expired one is deleted on the way. -/
def get (s : St) (k : Key) (now : Nat) : St × Option Backend :=
  match s.entries.find? (fun e => e.key == k) with
  | none => (s, none)
  | some e =>
    if e.expire > now then (s, some e.backend)
    else ({ s with entries := eraseKey s.entries k }, none)

def remove (s : St) (k : Key) : St := { s with entries := eraseKey s.entries k }

end Side.Pins
