/-
Side.RoundRobin — RoundRobinBackend (backend.go:243-356): the backend list, the address map,
the cursor, and Send as the composition of its three separately locked steps.
-/
import GoStd.Bytes
open GoStd

namespace Side.RR

abbrev Addr := Bytes

structure St where
  index : Nat := 0
  backends : List Addr := []      -- rb.backends (order matters)
  keys : List Addr := []          -- key set of rb.backendMap
  deriving Repr, DecidableEq

/-- `AddBackend`: append to the list, insert into the map. -/
def add (s : St) (a : Addr) : St :=
  { s with backends := s.backends ++ [a], keys := if s.keys.contains a then s.keys else s.keys ++ [a] }

/-- `RemoveBackend(address)`: only when the map has the address: drop the first list element with
that address, delete the map entry. Returns whether listeners were notified. -/
def remove (s : St) (a : Addr) : St × Bool :=
  if s.keys.contains a then
    ({ s with backends := s.backends.erase a, keys := s.keys.erase a }, true)
  else (s, false)

/-- step 1, `getNextBackendIndex` (locked): advance the cursor modulo the current length. -/
def nextIndex (s : St) : St × Option Nat :=
  let n := s.backends.length
  if n = 0 then (s, none)
  else
    let i := (s.index + 1) % n
    ({ s with index := i }, some i)

/-- step 3, `getBackend(index)` (locked): `backends[index % n]`. -/
def getBackend (s : St) (i : Nat) : Option Addr :=
  let n := s.backends.length
  if n = 0 then none else s.backends[i % n]?

/-- `Send` without interference between its steps: the backend the message is handed to. -/
def dispatch (s : St) : St × Option Addr :=
  match nextIndex s with
  | (s', none) => (s', none)
  | (s', some i) => (s', getBackend s' i)

/-- k consecutive dispatches: final state and the list of targets. -/
def dispatchN : Nat → St → St × List (Option Addr)
  | 0, s => (s, [])
  | k + 1, s =>
    let (s1, t) := dispatch s
    let (s2, ts) := dispatchN k s1
    (s2, t :: ts)

inductive Op where
  | add (a : Addr)
  | remove (a : Addr)
  | dispatch
  deriving Repr, DecidableEq

/-- One operation; the observable is the dispatch target (`none` for add/remove/drop). -/
def step (s : St) : Op → St × Option Addr
  | .add a => (add s a, none)
  | .remove a => ((remove s a).1, none)
  | .dispatch => dispatch s

def run : St → List Op → St × List (Option Addr)
  | s, [] => (s, [])
  | s, op :: ops =>
    let (s1, o) := step s op
    let (s2, os) := run s1 ops
    (s2, o :: os)

end Side.RR
