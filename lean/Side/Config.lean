/-
Side.Config — the start-up decisions of main.go that fix how long a dialog binding lives:
`getDefaultDialogTimeout` (the environment's DEFAULT_DIALOG_TIMEOUT when it is set and `strconv.Atoi`
accepts it, else 1200) and the first lines of `startProxy` (the service's own `dialogTimeout` when it
is positive, else that default). Core Lean only.
-/
import GoStd.Bytes
open GoStd

namespace Side.Config

/-- `getDefaultDialogTimeout()`; `env = none`: the variable is not set -/
def defaultDialogTimeout (env : Option Bytes) : Int :=
  match env with
  | none => 1200
  | some v => (atoi v).getD 1200

/-- `startProxy`: `dialogTimeout := config.DialogTimeout; if dialogTimeout <= 0 { dialogTimeout = getDefaultDialogTimeout() }` -/
def dialogTimeout (configured : Int) (env : Option Bytes) : Int :=
  if configured ≤ 0 then defaultDialogTimeout env else configured

end Side.Config
