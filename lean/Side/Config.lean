/-
Side.Config — the start-up decisions of main.go that fix how long a dialog binding lives:
`getDefaultDialogTimeout` (the environment's DEFAULT_DIALOG_TIMEOUT when it is set and `strconv.Atoi`
accepts it, else 1200) and the first lines of `startProxy` (the service's own `dialogTimeout` when it
is positive, else that default). Core Lean only.
-/
import GoStd.Bytes
open GoStd

namespace Side.Config

/-- `getDefaultDialogTimeout()`; `env = none`: the variable is not set -/
def defaultDialogTimeout (env : Option Bytes) : Int :=
  match env with
  | none => 1200
  | some v => (atoi v).getD 1200

/-- `startProxy`: `dialogTimeout := config.DialogTimeout; if dialogTimeout <= 0 { dialogTimeout = getDefaultDialogTimeout() }` -/
def dialogTimeout (configured : Int) (env : Option Bytes) : Int :=
  if configured ≤ 0 then defaultDialogTimeout env else configured

/-- `toKeepNextHopRoute(s)` for a non-empty setting (the empty one falls back to KEEP_NEXT_HOP_ROUTE of the
environment: `env`) -/
def toKeepNextHopRoute (s : Bytes) (env : Bytes := []) : Bool :=
  let w := if s.isEmpty then env else s
  [str "true", str "yes", str "1", str "on", str "t", str "y"].contains (toLower w)

/-- `PreConfigHostResolver.AddHostIP` over a list of (name, ip): a map, the last entry for a name wins -/
def lookupHost (pairs : List (Bytes × Bytes)) (name : Bytes) : Option Bytes :=
  pairs.foldl (fun acc p => if p.1 == name then some p.2 else acc) none

/-- `createPreConfigHostResolver(globalHostIPs, config)`: the global `hosts:` section first, then the service's own -/
def hostTable (glob service : List (Bytes × Bytes)) : List (Bytes × Bytes) := glob ++ service

end Side.Config
