/-
Side.Resolver — resolver.go addressResolved (one host entry) and backend.go hostIPChanged,
composed synchronously (the property grants quiescence between steps).
-/
import Side.RoundRobin
open GoStd

namespace Side.Res

abbrev Addr := Bytes

structure Entry where
  addrs : List Addr := []
  failed : Nat := 0
  deriving Repr, DecidableEq

inductive Outcome where
  | ok (addrs : List Addr)
  | fail
  deriving Repr, DecidableEq

/-- `strArraySub(a1, a2)`: elements of a1 not in a2, order kept. -/
def sub (a1 a2 : List Addr) : List Addr := a1.filter (fun s => !a2.contains s)

/-- failure tolerance: `entry.failed > failLimit` empties the set (F3 constant, expected 3). -/
def failLimit : Nat := 3

/-- `addressResolved`: new entry and the notification (newAddrs, removedAddrs), if any. -/
def step (e : Entry) : Outcome → Entry × Option (List Addr × List Addr)
  | .fail =>
    let f := e.failed + 1
    if f > failLimit && e.addrs.length > 0 then ({ addrs := [], failed := 0 }, some ([], e.addrs))
    else ({ e with failed := f }, none)
  | .ok addrs =>
    let newA := sub addrs e.addrs
    let remA := sub e.addrs addrs
    let e' : Entry := { addrs := addrs, failed := 0 }
    if newA.length > 0 || remA.length > 0 then (e', some (newA, remA)) else (e', none)

/-- `createHostPort(ip, port)`. -/
def hostPort (ip port : Bytes) : Bytes :=
  if contains 58 ip then [91] ++ ip ++ [93, 58] ++ port else ip ++ [58] ++ port

/-- The rotation together with the proxy's address index (`Proxy.backends` keys). With quiescence
between steps every Add/RemoveBackend notification has been applied by the proxy loop before the
next step, so the two are updated together. -/
structure Rot where
  rr : Side.RR.St := {}
  index : List Addr := []
  deriving Repr, DecidableEq

/-- `AddBackend` + `HandleBackendAdded` applied by the loop. -/
def Rot.add (r : Rot) (a : Addr) : Rot :=
  { rr := Side.RR.add r.rr a, index := if r.index.contains a then r.index else r.index ++ [a] }

/-- `RemoveBackend` (+ `HandleBackendRemoved` when the address was registered). -/
def Rot.remove (r : Rot) (a : Addr) : Rot :=
  { rr := (Side.RR.remove r.rr a).1, index := if (Side.RR.remove r.rr a).2 then r.index.erase a else r.index }

/-- `hostIPChanged`: add every new address, then remove every vanished one. -/
def applyChange (r : Rot) (port : Bytes) (newA remA : List Addr) : Rot :=
  (remA.map (hostPort · port)).foldl Rot.remove ((newA.map (hostPort · port)).foldl Rot.add r)

structure World where
  entry : Entry := {}
  rot : Rot := {}
  deriving Repr, DecidableEq

def worldStep (port : Bytes) (w : World) (o : Outcome) : World :=
  match step w.entry o with
  | (e', none) => { w with entry := e' }
  | (e', some (n, r)) => { entry := e', rot := applyChange w.rot port n r }

end Side.Res
