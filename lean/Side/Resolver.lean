/-
Side.Resolver — resolver.go addressResolved (one host entry) and backend.go hostIPChanged,
composed synchronously (the property grants quiescence between steps).
-/
import Side.RoundRobin
open GoStd

namespace Side.Res

abbrev Addr := Bytes

structure Entry where
  addrs : List Addr := []
  failed : Nat := 0
  deriving Repr, BEq, DecidableEq

inductive Outcome where
  | ok (addrs : List Addr)
  | fail
  deriving Repr, BEq, DecidableEq

/-- `strArraySub(a1, a2)`: elements of a1 not in a2, order kept. -/
def sub (a1 a2 : List Addr) : List Addr := a1.filter (fun s => !a2.contains s)

/-- failure tolerance: `entry.failed > failLimit` empties the set (F3 constant, expected 3). -/
def failLimit : Nat := 3

/-- `addressResolved`: new entry and the notification (newAddrs, removedAddrs), if any. -/
def step (e : Entry) : Outcome → Entry × Option (List Addr × List Addr)
  | .fail =>
    let f := e.failed + 1
    if f > failLimit && e.addrs.length > 0 then ({ addrs := [], failed := 0 }, some ([], e.addrs))
    else ({ e with failed := f }, none)
  | .ok addrs =>
    let newA := sub addrs e.addrs
    let remA := sub e.addrs addrs
    let e' : Entry := { addrs := addrs, failed := 0 }
    if newA.length > 0 || remA.length > 0 then (e', some (newA, remA)) else (e', none)

/-- `createHostPort(ip, port)`. -/
def hostPort (ip port : Bytes) : Bytes :=
  if contains 58 ip then [91] ++ ip ++ [93, 58] ++ port else ip ++ [58] ++ port

/-- `hostIPChanged`: add every new address, then remove every vanished one. Also returns the
add/remove events delivered to the proxy's index (in order). -/
def applyChange (rr : Side.RR.St) (port : Bytes) (newA remA : List Addr) : Side.RR.St × List (Bool × Addr) :=
  let rr1 := newA.foldl (fun s ip => Side.RR.add s (hostPort ip port)) rr
  let evAdd := newA.map (fun ip => (true, hostPort ip port))
  let (rr2, evRem) := remA.foldl (fun (acc : Side.RR.St × List (Bool × Addr)) ip =>
      let (s', notified) := Side.RR.remove acc.1 (hostPort ip port)
      (s', if notified then acc.2 ++ [(false, hostPort ip port)] else acc.2)) (rr1, [])
  (rr2, evAdd ++ evRem)

/-- the proxy's address index (`Proxy.backends` keys) after applying events in order. -/
def applyIndex (idx : List Addr) (evs : List (Bool × Addr)) : List Addr :=
  evs.foldl (fun i e => if e.1 then (if i.contains e.2 then i else i ++ [e.2]) else i.erase e.2) idx

structure World where
  entry : Entry := {}
  rr : Side.RR.St := {}
  index : List Addr := []
  deriving Repr, BEq, DecidableEq

def worldStep (port : Bytes) (w : World) (o : Outcome) : World :=
  match step w.entry o with
  | (e', none) => { w with entry := e' }
  | (e', some (n, r)) =>
    let (rr', evs) := applyChange w.rr port n r
    { entry := e', rr := rr', index := applyIndex w.index evs }

end Side.Res
