/-
sipdrv — model driver. `sipdrv run <ops> <impl.out> <model.out>` executes every op line on the
Lean model, writes the model's result lines, compares them with the implementation's result
lines and evaluates the per-op specification oracles (expectation suffix after "#") on the
IMPLEMENTATION's output. Prints `DIFF <lineno>` / `SPEC <lineno> <property> <what>` lines and a
final `SUMMARY` line.
-/
import Drv.Codec
import Drv.Side
import Drv.Send
import Drv.Pipe
import Drv.PipeSpec
import Drv.Reader
import Spec.Wire
open GoStd Driver

structure DrvState where
  side : SideState := {}
  send : SendState := {}
  pipe : PipeWorld := {}
  pipeSpec : PipeSpecState := {}
  prevOut : List (String × String) := []      -- tag ↦ implementation output (oracle `sameas`)
  dlgKeys : List (String × String) := []      -- C16: abstract key ↦ implementation id

def execOp (st : DrvState) (toks : List String) : DrvState × String :=
  match toks with
  | "std" :: op :: args => (st, execStd op args)
  | "codec" :: op :: args => (st, execCodec op args)
  | "msg" :: op :: args => (st, execMsg op args)
  | "cfg" :: op :: args => (st, execCfg op args)
  | "send" :: op :: args =>
    let (s', out) := execSend st.send op args
    ({ st with send := s' }, out)
  | "pipe" :: op :: args =>
    let (w', out) := execPipe st.pipe op args
    ({ st with pipe := w' }, out)
  | "frame" :: op :: args => (st, execReader "frame" op args)
  | "udpbuf" :: op :: args => (st, execReader "udpbuf" op args)
  | "udpwire" :: op :: args => (st, execReader "udpwire" op args)
  | "res3" :: _ => (st, "emptied-after-failures")     -- the resolver's own loop, real time: four failed look-ups empty the rotation
  | "race" :: _ => (st, "skip")
  | "wire" :: _ => (st, "skip")     -- wire stage: real sockets and goroutines; oracles only
  | stream :: op :: args =>
    if ["rr", "route", "res", "res2", "pins", "pool"].contains stream then
      let (s', out) := execSide st.side stream op args
      ({ st with side := s' }, out)
    else (st, "bad-op")
  | _ => (st, "bad-op")

/-- stateful oracles (observers) fed with the implementation's output -/
def specStateful (st : DrvState) (toks impl : List String) : DrvState × List String :=
  match toks with
  | "send" :: op :: _ =>
    let (s', errs) := specSend st.send op impl
    ({ st with send := s' }, errs)
  | stream :: op :: args =>
    if ["rr", "route", "res", "res2", "pins", "pool"].contains stream then
      let (s', errs) := specSide st.side stream op args impl
      ({ st with side := s' }, errs)
    else (st, [])
  | _ => (st, [])

/-- Specification oracle on the implementation's output. `expect` is the token list after "#":
`spec=<id> <kind> <fields…>`. Returns the failures. -/
def specOp (toks expect : List String) (impl : List String) : List String :=
  match expect with
  | [] => []
  | ["weak"] => []
  | sp :: kind :: fields =>
    let id := (sp.splitOn "=").getD 1 "?"
    match kind with
    | "eq" =>        -- implementation output must be exactly these tokens
      if impl == fields then [] else [s!"{id} expected-output-differs"]
    | "prefix" =>    -- implementation output must start with these tokens
      if fields.isPrefixOf impl then [] else [s!"{id} expected-prefix-differs"]
    | "msgs" =>      -- impl = n=<k> <hex>…: exactly these messages, in order, each with its headers and body
      let outs := (impl.drop 1).filter (fun t => !t.startsWith "closed=")
      if impl.head? != some s!"n={fields.length}" || outs.length != fields.length then [s!"{id} extracted-{impl.headD "?"}-expected-n={fields.length}"]
      else
        (fields.zip outs).flatMap fun (e, o) =>
          (Spec.relayViolations (unhex e) (unhex o)).map (fun v => s!"{id} {v}") ++
          (match Spec.readMsg (unhex e) true, Spec.readMsg (unhex o) false with
           | some we, some wo =>
             if Spec.stack Spec.isViaName we == Spec.stack Spec.isViaName wo &&
                Spec.stack Spec.isRouteName we == Spec.stack Spec.isRouteName wo then [] else [s!"{id} routing-headers-changed"]
           | _, _ => [s!"{id} unreadable"])
    | "selfrelay" =>  -- udpbuf: what is relayed for a datagram is determined by that datagram's own bytes
      match toks, impl with
      | _ :: _ :: _ :: d :: _, "ok" :: o :: _ => (Spec.relayViolations (unhex d) (unhex o)).map (fun v => s!"{id} relayed-datagram-{v}")
      | _, _ => []
    | "selfrelay1" =>  -- udpwire: the same for `udpwire send <datagram>`
      match toks, impl with
      | _ :: _ :: d :: _, "ok" :: o :: rest =>
        (Spec.relayViolations (unhex d) (unhex o)).map (fun v => s!"{id} relayed-datagram-{v}") ++
        (if rest.isEmpty then [] else [s!"{id} one-datagram-several-messages"])
      | _, _ => []
    | "closed" =>      -- C08: a TCP connection whose stream stops decoding (truncated, garbage, plain end) is closed
      if impl.contains "closed=1" then [] else [s!"{id} connection-left-open-after-undecodable-input"]
    | "source" =>      -- C07: a datagram is attributed to the address it really came from, whatever else is in flight
      if impl.any (fun t => t.startsWith "wrong-source=") then [s!"{id} datagram-attributed-to-another-source"] else []
    | "accepted" =>    -- a complete well-formed datagram is decoded whatever was received before it
      if impl.head? == some "ok" then [] else [s!"{id} well-formed-datagram-not-decoded-{impl.headD "?"}"]
    | "robust" =>
      (if impl.head? == some "panic" then [s!"{id} panic-{impl.getD 1 "?"}"] else []) ++
      (if impl.any (fun t => t.startsWith "alloc=big") then [s!"{id} allocation-out-of-proportion-{impl.getLastD "?"}"] else [])
    | "reenc" =>     -- decode-then-encode is byte-identical: impl = ok <input> ...
      match toks, impl with
      | _ :: _ :: inp :: _, "ok" :: enc :: _ => if enc == inp then [] else [s!"{id} re-encoding-differs"]
      | _, _ => [s!"{id} not-decoded"]
    | _ => [s!"{id} unknown-oracle-{kind}"]
  | _ => []

def splitExpect (line : String) : List String × List String :=
  match line.splitOn " # " with
  | [a] => (words a, [])
  | a :: b :: _ => (words a, words b)
  | [] => ([], [])

partial def loop (ops impl : Array String) (i : Nat) (st : DrvState) (out : IO.FS.Handle)
    (diffs specs : Nat) : IO (Nat × Nat) := do
  if h : i < ops.size then
    let line := ops[i]
    let implLine := (impl[i]?).getD "<missing>"
    let (toks, expect) := splitExpect line
    -- observers see the state BEFORE the model executes the op (tables are shared)
    let (stObs, obsErrs) := specStateful st toks (words implLine)
    let (st', modelOut) := execOp stObs toks
    out.putStrLn modelOut
    let mut d := diffs
    let mut s := specs
    -- "# weak": outside every domain; only crash-freedom is compared
    let weak := (line.splitOn " # ").any (fun seg => (words seg).head? == some "weak")
    let differs := if implLine == "not-run" then false
      else if implLine.startsWith "process-died" then true
      else if modelOut == "skip" then false
      else if weak then implLine.startsWith "panic" || implLine == "<missing>"
      else modelOut != implLine
    if differs then
      IO.println s!"DIFF {i + 1}"
      d := d + 1
    for f in obsErrs do
      IO.println s!"SPEC {i + 1} {f}"
      s := s + 1
    -- several oracles may be chained with " # "
    let segs := (line.splitOn " # ").drop 1
    let mut st'' := st'
    if implLine.startsWith "process-died" then
      -- whatever was being processed killed the whole process: a C08 violation with this op as replay
      IO.println s!"SPEC {i + 1} C08 {implLine.replace " " "-"}"
      IO.println s!"SPEC {i + 1} C09 {implLine.replace " " "-"}"
      s := s + 2
    -- "bad-op" from the implementation side = the harness file holding this op was dropped because it no longer
    -- compiles against the tree: the op is untied (a DIFF), no oracle can be evaluated on it
    for seg in (if implLine == "not-run" || implLine == "bad-op" || implLine.startsWith "process-died" then [] else segs) do
      -- `spec=<id> remember <tag>` / `spec=<id> sameas <tag>`: two ops must have the same implementation output
      if (words seg).getD 1 "" == "remember" then
        st'' := { st'' with prevOut := ((words seg).getD 2 "?", implLine) :: st''.prevOut.take 2000 }
        continue
      if (words seg).getD 1 "" == "destdiffers" then
        -- two consecutive dispatches of requests that are bound to no backend go to two different backends (strict
        -- rotation over >= 2 backends); the same destination twice = a binding is being honoured
        let id := (((words seg).headD "").splitOn "=").getD 1 "?"
        match st''.prevOut.find? (fun e => e.1 == (words seg).getD 2 "?") with
        | some (_, o) =>
          let d0 := (words o).take 3
          let d1 := (words implLine).take 3
          if d0.head? == some "n=1" && d1.head? == some "n=1" && d0 == d1 then
            IO.println s!"SPEC {i + 1} {id} unbound-requests-keep-reaching-the-same-backend"
            s := s + 1
        | none =>
          IO.println s!"SPEC {i + 1} {id} destdiffers-without-remember"
          s := s + 1
        continue
      if (words seg).getD 1 "" == "sameas" then
        let id := (((words seg).headD "").splitOn "=").getD 1 "?"
        match st''.prevOut.find? (fun e => e.1 == (words seg).getD 2 "?") with
        | some (_, o) =>
          if o != implLine then
            IO.println s!"SPEC {i + 1} {id} output-depends-on-something-other-than-the-input"
            s := s + 1
        | none =>
          IO.println s!"SPEC {i + 1} {id} sameas-without-remember"
          s := s + 1
        continue
      -- C16: implementation identifiers must be in bijection with the abstract dialog keys
      if (words seg).take 2 == ["spec=C16", "key"] then
        let want := (words seg).getD 2 "?"
        let got : Option String := match words implLine with
          | "id" :: h :: _ => some h
          | "none" :: _ => none
          | _ => some "unreadable"
        match got with
        | none =>
          if want != "none" then
            IO.println s!"SPEC {i + 1} C16 message-with-both-tags-attributed-to-no-dialog"
            s := s + 1
        | some h =>
          if want == "none" then
            IO.println s!"SPEC {i + 1} C16 message-lacking-a-tag-attributed-to-a-dialog"
            s := s + 1
          else
            match st''.dlgKeys.find? (fun e => e.1 == want), st''.dlgKeys.find? (fun e => e.2 == h) with
            | some (_, h'), _ =>
              if h' != h then
                IO.println s!"SPEC {i + 1} C16 same-dialog-different-identifier"
                s := s + 1
            | none, some _ =>
              IO.println s!"SPEC {i + 1} C16 different-dialogs-same-identifier"
              s := s + 1
            | none, none => st'' := { st'' with dlgKeys := (want, h) :: st''.dlgKeys }
        continue
      if toks.head? == some "pipe" || toks.head? == some "wire" then
        let (ps, errs) := specPipeSeg st''.pipeSpec toks (words seg) (words implLine)
        st'' := { st'' with pipeSpec := ps }
        for f in errs do
          IO.println s!"SPEC {i + 1} {f}"
          s := s + 1
      else
        for f in specOp toks (words seg) (words implLine) do
          IO.println s!"SPEC {i + 1} {f}"
          s := s + 1
    let _ := expect
    loop ops impl (i + 1) st'' out d s
  else
    return (diffs, specs)

def main (args : List String) : IO UInt32 := do
  match args with
  | ["run", opsPath, implPath, modelPath] =>
    let ops := (← IO.FS.lines opsPath).filter (fun l => l.trimAscii.toString ≠ "")
    let impl ← IO.FS.lines implPath
    let out ← IO.FS.Handle.mk modelPath IO.FS.Mode.write
    let (d, s) ← loop ops impl 0 {} out 0 0
    out.flush
    IO.println s!"SUMMARY lines={ops.size} impl_lines={impl.size} diffs={d} specfails={s}"
    return 0
  | _ =>
    IO.eprintln "usage: sipdrv run <ops> <impl.out> <model.out>"
    return 2
