/-
Expected.Globals — obligation on the regenerated fact F9 (tie A): the process-wide state of the program.

The model treats decoding and encoding as functions of the text, and one step of the pipeline as a function of
the message and of the state reachable from the Proxy object. That is sound only while nothing else outlives a
message: the program's package-level variables are two constant tables, the compact-name table built once at
start-up, and the name resolver. A new package-level variable (a cache of decoded values, an interning table,
a counter) makes behaviour depend on history in a way the model does not know; it breaks this obligation before
any input is run.
-/
import Generated.Facts

namespace Expected

theorem globals_known : Generated.globals =
    [("SupportedProtocol", "map[string]string"), ("compactHdrNames", "*compactHeaderNames"),
     ("dynamicHostResolver", "*DynamicHostResolver"), ("finalResponseStatusCodes", "map[int]bool")] := by decide

end Expected
