/-
Expected.K02 - C02: default ports and hop precedence. Obligations on the regenerated fact F3 (tie A): the literals and the
comparison / arithmetic operators of these functions, in source order, are the ones the model was written from
(a changed constant, format string or comparison breaks the obligation before any input is run).
-/
import Generated.Consts

namespace Expected.K02

def lits (fn : String) : List String := ((Generated.literals.find? (fun e => e.1 == fn)).map (fun e => e.2)).getD ["<function not found>"]

theorem ViaParam_GetPort_shape : lits "ViaParam.GetPort" =
  ["op!=", "0", "op==", "\"TLS\"", "5061", "5060"] := by decide +kernel

theorem SIPURI_GetPort_shape : lits "SIPURI.GetPort" =
  ["op!=", "0", "op==", "\"tls\"", "5061", "5060"] := by decide +kernel

theorem Proxy_getNextReponseHop_shape : lits "Proxy.getNextReponseHop" =
  ["op!=", "0", "op!=", "op==", "op!="] := by decide +kernel

theorem Message_IsFinalResponse_shape : lits "Message.IsFinalResponse" =
  ["op==", "op/", "100", "op&&"] := by decide +kernel

end Expected.K02
