/- Obligations on regenerated typed facts (tie A): a source edit that changes the fact makes the theorem fail at `lake build`. -/
import Generated.Facts

namespace Expected
open Generated

/-! ### F7 (C18): the static-route lookup does not iterate over a map -/

theorem findRoute_no_map_range : (mapRanges.filter (fun r => r.1 == "PreConfigRoute.FindRoute")) = [] := by decide

/-- the remaining map iterations are the ones the model treats as order-independent (set deletions,
snapshots) -/
theorem mapRanges_known : mapRanges.map (·.1) =
    ["ClientTransportMgr.cleanExpiredTransport", "DialogBasedBackend.cleanExpiredDialog", "DialogBasedBackend.cleanExpiredDialog",
     "DynamicHostResolver.getHostnames", "RoundRobinBackend.AddBackendChangeListener", "RoundRobinBackend.GetAllBackend"] := by decide

end Expected
