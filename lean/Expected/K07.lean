/-
Expected.K07 - C07: received / rport stamping. Obligations on the regenerated fact F3 (tie A): the literals and the
comparison / arithmetic operators of these functions, in source order, are the ones the model was written from
(a changed constant, format string or comparison breaks the obligation before any input is run).
-/
import Generated.Consts

namespace Expected.K07

def lits (fn : String) : List String := ((Generated.literals.find? (fun e => e.1 == fn)).map (fun e => e.2)).getD ["<function not found>"]

theorem Message_SetReceived_shape : lits "Message.SetReceived" =
  ["op!=", "0", "op!=", "\"rport\"", "\"rport\"", "\"%d\""] := by decide +kernel

theorem ViaParam_SetReceived_shape : lits "ViaParam.SetReceived" =
  ["\"received\""] := by decide +kernel

end Expected.K07
