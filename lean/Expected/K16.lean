/-
Expected.K16 - C16: dialog identifier format. Obligations on the regenerated fact F3 (tie A): the literals and the
comparison / arithmetic operators of these functions, in source order, are the ones the model was written from
(a changed constant, format string or comparison breaks the obligation before any input is run).
-/
import Generated.Consts

namespace Expected.K16

def lits (fn : String) : List String := ((Generated.literals.find? (fun e => e.1 == fn)).map (fun e => e.2)).getD ["<function not found>"]

theorem Dialog_String_shape : lits "Dialog.String" =
  ["\"%s %s %s\""] := by decide +kernel

theorem Message_GetDialog_shape : lits "Message.GetDialog" =
  ["op!=", "\"\"", "op!=", "\"\"", "op!=", "\"\"", "op!=", "\"\"", "op!=", "\"\"", "op!=", "\"\"", "op!=", "\"\"", "op!=", "\"\"", "op!=", "\"\"", "op||", "op<", "op&&", "op==", "op<", "\"%s %s\"", "\"%s %s\"", "\"%s %s\"", "\"%s %s\""] := by decide +kernel

end Expected.K16
