/-
Expected.K15 - C15: lifetime arithmetic of a pin. Obligations on the regenerated fact F3 (tie A): the literals and the
comparison / arithmetic operators of these functions, in source order, are the ones the model was written from
(a changed constant, format string or comparison breaks the obligation before any input is run).
-/
import Generated.Consts

namespace Expected.K15

def lits (fn : String) : List String := ((Generated.literals.find? (fun e => e.1 == fn)).map (fun e => e.2)).getD ["<function not found>"]

theorem DialogBasedBackend_AddBackend_shape : lits "DialogBasedBackend.AddBackend" =
  ["op>", "op*"] := by decide +kernel

/-- the default: DEFAULT_DIALOG_TIMEOUT, 1200 when it is not set, 1200 when it is not a number (Side.Config.defaultDialogTimeout) -/
theorem getDefaultDialogTimeout_shape : lits "getDefaultDialogTimeout" =
  ["\"DEFAULT_DIALOG_TIMEOUT\"", "op!", "1200", "op==", "1200"] := by decide +kernel

/-- startProxy applies the default only to a service without a positive dialogTimeout of its own (`<= 0` comes first) -/
theorem startProxy_shape : lits "startProxy" =
  ["op<=", "0", "0", "op!", "op!", "op!=", "0", "op==", "1", "op>", "0", "\"failed to start %d proxies\""] := by decide +kernel

end Expected.K15
