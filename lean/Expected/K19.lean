/-
Expected.K19 - C19: failure tolerance of the resolver. Obligations on the regenerated fact F3 (tie A): the literals and the
comparison / arithmetic operators of these functions, in source order, are the ones the model was written from
(a changed constant, format string or comparison breaks the obligation before any input is run).
-/
import Generated.Consts

namespace Expected.K19

def lits (fn : String) : List String := ((Generated.literals.find? (fun e => e.1 == fn)).map (fun e => e.2)).getD ["<function not found>"]

theorem DynamicHostResolver_addressResolved_shape : lits "DynamicHostResolver.addressResolved" =
  ["op!=", "1", "op&&", "op>", "3", "op>", "0", "0", "0", "0", "op||", "op>", "0", "op>", "0"] := by decide +kernel

end Expected.K19
