/-
Expected.Wiring — obligations on the regenerated call-site wiring F4 and on the sibling fact
"header names are never compared with == / !=" (tie A).
-/
import Generated.Wiring

namespace Expected

def argOf (w : Generated.Wire) (param : String) : Option String :=
  (w.args.find? (fun a => a.1 == param)).map (·.2)

def callsOf (caller callee : String) : List Generated.Wire :=
  Generated.wiring.filter (fun w => w.caller == caller && w.callee == callee)

/-- F4 / C07: `no-received` reaches every listener constructor negated, in the receivedSupport
position: startProxy passes `!listen.NoReceived` as `receivedSupport` to NewProxy and NewProxyItem. -/
theorem receivedSupport_wired_from_config :
    (callsOf "startProxy" "NewProxy").map (argOf · "receivedSupport") = [some "!listen.NoReceived"] ∧
    (callsOf "startProxy" "NewProxyItem").map (argOf · "receivedSupport") = [some "!listen.NoReceived"] := by
  decide

/-- … and from there, unchanged, to every server transport and to every RawMessage. -/
theorem receivedSupport_wired_to_transports :
    (callsOf "NewProxyItem" "NewUDPServerTransport").map (argOf · "receivedSupport") = [some "receivedSupport"] ∧
    (callsOf "NewProxyItem" "NewTCPServerTransport").map (argOf · "receivedSupport") = [some "receivedSupport"] ∧
    (callsOf "NewProxy" "NewTCPServerTransportWithConn").map (argOf · "receivedSupport") = [some "receivedSupport"] ∧
    (callsOf "ProxyItem.connectionEstablished" "NewTCPServerTransportWithConn").map (argOf · "receivedSupport") = [some "receivedSupport"] ∧
    (callsOf "UDPServerTransport.receiveMessage" "NewRawMessage").map (argOf · "receivedSupport") = [some "u.receivedSupport"] ∧
    (callsOf "TCPServerTransport.receiveMessage" "NewRawMessage").map (argOf · "receivedSupport") = [some "t.receivedSupport"] ∧
    (callsOf "UDPServerTransport.receiveMessage" "NewRawMessage").map (argOf · "peerAddr") = [some "address"] ∧
    (callsOf "UDPServerTransport.receiveMessage" "NewRawMessage").map (argOf · "peerPort") = [some "port"] ∧
    (callsOf "TCPServerTransport.receiveMessage" "NewRawMessage").map (argOf · "peerAddr") = [some "peerAddr"] ∧
    (callsOf "TCPServerTransport.receiveMessage" "NewRawMessage").map (argOf · "peerPort") = [some "peerPort"] := by
  decide

/-- F4 / C09: the self-learned route table is allocated once per service (outside the listener loop)
and every Proxy / ProxyItem of the service receives that same object. -/
theorem selfLearnRoute_shared_per_service :
    (callsOf "startProxy" "NewSelfLearnRoute").map (·.inLoop) = [false] ∧
    (callsOf "startProxy" "NewProxy").map (fun w => (w.inLoop, argOf w "selfLearnRoute")) = [(true, some "selfLearnRoute")] ∧
    (callsOf "startProxy" "NewProxyItem").map (fun w => (w.inLoop, argOf w "selfLearnRoute")) = [(true, some "selfLearnRoute")] := by
  decide

/-- F4 / C15: the configured dialog timeout reaches the pin table. -/
theorem dialogTimeout_wired :
    (callsOf "startProxy" "NewProxy").map (argOf · "dialogExpire") = [some "int64(dialogTimeout)"] ∧
    (callsOf "NewProxy" "NewDialogBasedBackend").map (argOf · "timeoutSeconds") = [some "dialogExpire"] := by
  decide

/-- sibling of F5 / C17: no header name is compared with == or != anywhere (all comparisons go
through isSameHeader). -/
theorem no_raw_header_name_comparison : Generated.nameComparisons = [] := by decide

end Expected
