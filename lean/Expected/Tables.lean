/-
Expected.Tables — obligations on the regenerated tables F1/F2 (tie A). If a source edit changes a
table, these are re-checked by the kernel; failure = the fact theorems rely on no longer holds.
-/
import Generated.Tables
import Sip.Message
open GoStd Sip

namespace Expected

/-- F2: exactly the classes 2xx-6xx are final. -/
theorem finalClasses_ok : Generated.finalClasses = [2, 3, 4, 5, 6] := by decide

/-- F2: exactly udp and tcp are supported client transports. -/
theorem supportedProtocols_ok : Generated.supportedProtocolsStr = ["udp", "tcp"] := by decide

/-- F1: the compact-name table is the RFC 3261 / RFC 3515 / RFC 3841 / RFC 6665 set the model was written for. -/
theorem compactTable_ok : Generated.compactTableStr =
  [("Accept-Contact", "a"), ("Referred-By", "b"), ("Content-Type", "c"), ("Content-Encoding", "e"),
   ("From", "f"), ("Call-ID", "i"), ("Supported", "k"), ("Content-Length", "l"), ("Contact", "m"),
   ("Event", "o"), ("Refer-To", "r"), ("Subject", "s"), ("To", "t"), ("Allow-Events", "u"), ("Via", "v")] := by decide

end Expected
