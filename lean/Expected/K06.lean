/-
Expected.K06 - C06: magic cookie of the branch. Obligations on the regenerated fact F3 (tie A): the literals and the
comparison / arithmetic operators of these functions, in source order, are the ones the model was written from
(a changed constant, format string or comparison breaks the obligation before any input is run).
-/
import Generated.Consts

namespace Expected.K06

def lits (fn : String) : List String := ((Generated.literals.find? (fun e => e.1 == fn)).map (fun e => e.2)).getD ["<function not found>"]

theorem CreateBranch_shape : lits "CreateBranch" =
  ["op==", "\"-\"", "op+", "\"z9hG4bK\"", "op-", "1", "\"\""] := by decide +kernel

end Expected.K06
