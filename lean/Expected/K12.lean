/-
Expected.K12 - C12: transport key and transaction id formats. Obligations on the regenerated fact F3 (tie A): the literals and the
comparison / arithmetic operators of these functions, in source order, are the ones the model was written from
(a changed constant, format string or comparison breaks the obligation before any input is run).
-/
import Generated.Consts

namespace Expected.K12

def lits (fn : String) : List String := ((Generated.literals.find? (fun e => e.1 == fn)).map (fun e => e.2)).getD ["<function not found>"]

theorem ClientTransportMgr_getFullAddr_shape : lits "ClientTransportMgr.getFullAddr" =
  ["\"%s://%s\"", "op&&", "op==", "\"tcp\"", "op!=", "\"\"", "\"%s-%s\""] := by decide +kernel

theorem Message_GetClientTransaction_shape : lits "Message.GetClientTransaction" =
  ["op!=", "\"\"", "op!=", "\"\"", "\"%s %s\""] := by decide +kernel

end Expected.K12
