/- Obligations on regenerated typed facts (tie A): a source edit that changes the fact makes the theorem fail at `lake build`. -/
import Generated.Facts

namespace Expected
open Generated

/-! ### F4b (C07): constructors store received-support and the packet's source where the pipeline reads them -/

def ctorField (c t f : String) : List String :=
  (ctorFields.filter (fun r => r.1 == c && r.2.1 == t && r.2.2.1 == f)).map (·.2.2.2)

theorem receivedSupport_stored_by_constructors :
    ctorField "NewUDPServerTransport" "UDPServerTransport" "receivedSupport" = ["receivedSupport"] ∧
    ctorField "NewTCPServerTransport" "TCPServerTransport" "receivedSupport" = ["receivedSupport"] ∧
    ctorField "NewTCPServerTransportWithConn" "TCPServerTransport" "receivedSupport" = ["receivedSupport"] ∧
    ctorField "NewRawMessage" "RawMessage" "ReceivedSupport" = ["receivedSupport"] ∧
    ctorField "NewRawMessage" "RawMessage" "PeerAddr" = ["peerAddr"] ∧
    ctorField "NewRawMessage" "RawMessage" "PeerPort" = ["peerPort"] ∧
    ctorField "NewRawMessage" "RawMessage" "From" = ["from"] := by decide

end Expected
