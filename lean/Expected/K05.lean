/-
Expected.K05 - C05: cursor arithmetic of the rotation. Obligations on the regenerated fact F3 (tie A): the literals and the
comparison / arithmetic operators of these functions, in source order, are the ones the model was written from
(a changed constant, format string or comparison breaks the obligation before any input is run).
-/
import Generated.Consts

namespace Expected.K05

def lits (fn : String) : List String := ((Generated.literals.find? (fun e => e.1 == fn)).map (fun e => e.2)).getD ["<function not found>"]

theorem RoundRobinBackend_getNextBackendIndex_shape : lits "RoundRobinBackend.getNextBackendIndex" =
  ["op<=", "0", "0", "\"no backend available\"", "op%", "op+", "1"] := by decide +kernel

theorem RoundRobinBackend_getBackend_shape : lits "RoundRobinBackend.getBackend" =
  ["op<=", "0", "\"no backend available at %d\"", "op%"] := by decide +kernel

end Expected.K05
