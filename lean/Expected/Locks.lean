/- Obligations on regenerated typed facts (tie A): a source edit that changes the fact makes the theorem fail at `lake build`. -/
import Generated.Facts

namespace Expected
open Generated

/-! ### F6 (C09): lock discipline of the access table

Every WRITE outside a constructor is (a) to a value that belongs to one message / one parse and is
never shared between goroutines, or (b) to state owned by one proxy loop goroutine, or (c) made by a
function that only runs during start-up (before the goroutines that read the field exist), or
(d) made with the structure's guarding mutex held. Every READ of a mutex-guarded structure holds that
mutex unless the field never changes after construction (or is accessed atomically). -/

/-- values private to one message / one decoding (never shared) -/
def messageConfined : List String :=
  ["AddrSpec", "AbsoluteURI", "CSeq", "Dialog", "FromSpec", "Header", "KeyValue", "Message", "NameAddr", "RawMessage", "RecRoute",
   "RecordRoute", "RequestLine", "Route", "RouteParam", "SIPURI", "StatusLine", "To", "Via", "ViaParam", "SizedByteArray"]

/-- state owned by exactly one proxy message-loop goroutine (reached only from receiveAndProcessMessage) -/
def loopOwned : List String :=
  ["DialogBasedBackend", "ExpireBackend", "FailOverClientTransport", "TCPClientTransport", "UDPClientTransport", "BackendWithParent"]

/-- (structure, function): functions that run only during start-up / configuration loading -/
def startupOnly : List (String × String) :=
  [("PreConfigHostResolver", "PreConfigHostResolver.AddHostIP"), ("PreConfigRoute", "PreConfigRoute.AddRouteItem"),
   ("Proxy", "Proxy.AddItem"), ("compactHeaderNames", "compactHeaderNames.AddCompact"),
   ("TCPServerTransport", "TCPServerTransport.Start"), ("UDPServerTransport", "UDPServerTransport.Start"),
   ("MyName", "NewMyName")]

/-- (structure, field): fields of the proxy owned by its loop goroutine -/
def loopOwnedFields : List (String × String) := [("Proxy", "backends")]

/-- the mutex that guards a structure -/
def guardOf (s : String) : String := if s == "AddressWithCallback" then "DynamicHostResolver" else s

def guarded : List String := lockTypes ++ ["AddressWithCallback"]

/-- (structure, field): never written after construction, or only accessed through sync/atomic -/
def immutableOrAtomic : List (String × String) :=
  [("DynamicHostResolver", "stop"), ("DynamicHostResolver", "interval"), ("ProxyItem", "backend"), ("ProxyItem", "msgHandler"),
   ("ProxyItem", "dests"), ("ProxyItem", "defRoute"), ("RoundRobinBackend", "backendChangeListenerMgr"),
   ("TCPBackend", "backendAddr"), ("TCPBackend", "localAddr"), ("TCPBackend", "connectionEstablished"),
   ("ByteArrayPool", "maxCap"), ("ByteArrayPool", "arraySize"), ("ClientTransportMgr", "connectionEstablished")]

/-- (structure, field, function): reads of ProxyItem.transports by the proxy's own loop; the only writer
(ProxyItem.connectionEstablished) is invoked from TCPBackend.connect on that same loop goroutine. -/
def sameGoroutineReads : List (String × String × String) :=
  [("ProxyItem", "transports", "Proxy.sendToBackend"), ("ProxyItem", "transports", "Proxy.findTransportByBackendAddr"),
   ("ProxyItem", "transports", "ProxyItem.start")]

def writeOk (a : Access) : Bool :=
  a.ctor || messageConfined.contains a.strct || loopOwned.contains a.strct || startupOnly.contains (a.strct, a.fn) ||
  loopOwnedFields.contains (a.strct, a.field) || immutableOrAtomic.contains (a.strct, a.field) ||
  (guarded.contains a.strct && a.locks.contains (guardOf a.strct))

def readOk (a : Access) : Bool :=
  a.ctor || !guarded.contains a.strct || immutableOrAtomic.contains (a.strct, a.field) ||
  sameGoroutineReads.contains (a.strct, a.field, a.fn) || a.locks.contains (guardOf a.strct)

def rowOk (a : Access) : Bool := if a.write then writeOk a else readOk a

/-- C09: the current source satisfies the discipline. -/
theorem repo_disciplined : accessTable.all rowOk = true := by decide +kernel

/-- the lock-carrying structures are the ones the discipline was written for -/
theorem lockTypes_known : lockTypes =
    ["BackendChangeListenerMgr", "ByteArrayPool", "ClientTransportMgr", "DynamicHostResolver", "ProxyItem", "RoundRobinBackend",
     "SelfLearnRoute", "TCPBackend"] := by decide

end Expected
