/-
Expected.K18 - C18: the default entry. Obligations on the regenerated fact F3 (tie A): the literals and the
comparison / arithmetic operators of these functions, in source order, are the ones the model was written from
(a changed constant, format string or comparison breaks the obligation before any input is run).
-/
import Generated.Consts

namespace Expected.K18

def lits (fn : String) : List String := ((Generated.literals.find? (fun e => e.1 == fn)).map (fun e => e.2)).getD ["<function not found>"]

theorem PreConfigRoute_FindRoute_shape : lits "PreConfigRoute.FindRoute" =
  ["op&&", "op==", "\"default\"", "\"\"", "\"\"", "0", "\"fail to find route for %s\""] := by decide +kernel

end Expected.K18
