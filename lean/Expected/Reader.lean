/- Obligations on regenerated typed facts (tie A): a source edit that changes the fact makes the theorem fail at `lake build`. -/
import Generated.Facts

namespace Expected
open Generated

/-! ### F8 (C10, C11): views into reader / pool buffers -/

/-- C11: readLine copies the first fragment before it calls ReadLine again (Reader.joinFragments true). -/
theorem readLine_copies_first_fragment : readLineCopiesFirstFragment = true := by decide

/-- C11 / C08 / C10: the reading layer of message.go uses its `bufio.Reader` through exactly the operations that
`Reader/Bufio.lean` models (`ReadLine` twice in `readLine` - first fragment and continuation loop -, `ReadByte` /
`UnreadByte` in `skipWhiteSpace`, and `ParseMessage` hands the reader to `skipWhiteSpace`, `readLine` and
`io.CopyN`, in this order). A rewrite with `ReadBytes`, `ReadString`, `Peek` / `Discard`, `ReadFull` ... changes
the list: the refinement theorems of `Lemmas/Bufio.lean` would then be about operations the code no longer uses. -/
theorem reader_operations_as_modelled : readerCalls =
    [("readLine", ["reader.ReadLine", "reader.ReadLine"]),
     ("skipWhiteSpace", ["reader.ReadByte", "reader.UnreadByte"]),
     ("ParseMessage", ["skipWhiteSpace(reader)", "readLine(reader)", "io.CopyN(reader)"])] := by decide

/-- C10: the UDP parse loop builds its reader over the first n bytes of the pooled buffer only … -/
theorem udp_reader_over_datagram : udpReaderOver = "sized_byte_array.b[:sized_byte_array.n]" := by decide

/-- … and parses, frees the buffer exactly once, then hands the message on, in this order. -/
theorem udp_parse_loop_shape : udpParseLoop =
    ["sized_byte_array := <-u.msgParseChannel",
     "reader := bufio.NewReaderSize(bytes.NewBuffer(sized_byte_array.b[:sized_byte_array.n]), sized_byte_array.n)",
     "msg, err := ParseMessage(reader)", "u.msgBufPool.Free(sized_byte_array.b)", "if err == nil {…}"] := by decide

end Expected
