import GoStd.Bytes
namespace Expected
end Expected
