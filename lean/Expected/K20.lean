/-
Expected.K20 - C20: retry bounds of the send loops. Obligations on the regenerated fact F3 (tie A): the literals and the
comparison / arithmetic operators of these functions, in source order, are the ones the model was written from
(a changed constant, format string or comparison breaks the obligation before any input is run).
-/
import Generated.Consts

namespace Expected.K20

def lits (fn : String) : List String := ((Generated.literals.find? (fun e => e.1 == fn)).map (fun e => e.2)).getD ["<function not found>"]

theorem TCPClientTransport_Send_shape : lits "TCPClientTransport.Send" =
  ["op!=", "0", "op<", "2", "op&&", "op==", "\"tcp\"", "\"0\"", "\"tcp\"", "\"tcp\"", "op!=", "op!=", "op==", "op==", "\"fail to send message to %s\""] := by decide +kernel

theorem TCPBackend_Send_shape : lits "TCPBackend.Send" =
  ["op!=", "0", "op<", "2", "op==", "op==", "op==", "\"fail to send message to backend %s\""] := by decide +kernel

theorem FailOverClientTransport_Send_shape : lits "FailOverClientTransport.Send" =
  ["op!=", "op==", "op!=", "\"fail to send message\""] := by decide +kernel

end Expected.K20
