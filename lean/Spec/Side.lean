/-
Spec.Side — decidable specification oracles for the small machines, written from the property
texts (not from the model functions) and evaluated by the driver on the IMPLEMENTATION's
outputs. The same predicates appear in the theorems of Props/C05, C15, C18, C19.
-/
import GoStd.Bytes
import Side.StaticRoute
open GoStd

namespace Spec

/-! ### C05: rotation over the current members -/

structure RRObs where
  members : List Bytes := []      -- as told by the add/remove operations
  recent : List Bytes := []       -- dispatch targets since the last membership change, newest first
  deriving Repr

def RRObs.add (o : RRObs) (a : Bytes) : RRObs := { members := o.members ++ [a], recent := [] }
def RRObs.remove (o : RRObs) (a : Bytes) : RRObs :=
  if o.members.contains a then { members := o.members.erase a, recent := [] } else o

/-- One dispatch observed with target `t` (`none` = dropped). Violations, if any:
the target is not a current member; a drop although members exist; a send although none exist;
the target repeats within the last k-1 dispatches (k = number of members), i.e. some window of k
consecutive dispatches would not reach every backend exactly once. -/
def RRObs.dispatch (o : RRObs) (t : Option Bytes) : RRObs × List String :=
  match t with
  | none => (o, if o.members.isEmpty then [] else ["dropped-with-backends"])
  | some a =>
    let k := o.members.length
    let errs :=
      (if o.members.contains a then [] else ["target-not-member"]) ++
      (if (o.recent.take (k - 1)).contains a then ["window-repeats-target"] else [])
    ({ o with recent := a :: o.recent }, errs)

/-! ### C18: static route lookup precedence -/

/-- what `find host` may return for table `t` according to the property text. -/
def routeAllowed (t : Side.SR.Table) (host : Bytes) (r : Option Side.SR.Item) : Bool :=
  match t.find? (fun x => x.dest == host) with
  | some it => r == some it
  | none =>
    let ms := t.filter (fun x => Side.SR.glob x.dest host)
    if !ms.isEmpty then (match r with | some it => ms.contains it | none => false)
    else
      match t.find? (fun x => x.dest == str "default") with
      | some d => r == some d
      | none => r == none

end Spec
