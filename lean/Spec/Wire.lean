/-
Spec.Wire — the independent observation reader used only by the specification oracles:
split the header section into lines, split each line at the first ':', nothing else. It does not
use the model's parser (Sip.Message.parseMessage) or the model's header-class function.
-/
import GoStd.Bytes
open GoStd

namespace Spec

structure WMsg where
  start : Bytes
  headers : List (Bytes × Bytes)      -- name as written, value with surrounding blanks removed
  body : Bytes
  deriving Repr, DecidableEq

def stripCR (l : Bytes) : Bytes := if l.getLast? == some 13 then l.dropLast else l

/-- lines up to the first empty one; the remainder is the body -/
def readLines : Nat → Bytes → Option (List Bytes × Bytes)
  | 0, _ => none
  | fuel + 1, s =>
    match cut 10 s with
    | none => none
    | some (l, rest) =>
      let l := stripCR l
      if l.isEmpty then some ([], rest)
      else match readLines fuel rest with
        | none => none
        | some (ls, body) => some (l :: ls, body)

def headerOf (line : Bytes) : Bytes × Bytes :=
  match cut 58 line with
  | none => (line, [])
  | some (n, v) => (n, trimSpace v)

def lowerName (n : Bytes) : Bytes := toLower n

def isCL (n : Bytes) : Bool := lowerName n == str "content-length" || lowerName n == str "l"
def isViaName (n : Bytes) : Bool := lowerName n == str "via" || lowerName n == str "v"
def isRouteName (n : Bytes) : Bool := lowerName n == str "route"
def isRRName (n : Bytes) : Bool := lowerName n == str "record-route"
def isOwned (n : Bytes) : Bool := isViaName n || isRouteName n || isRRName n

/-- read one message from the start of `data` (leading CR/LF keep-alives skipped); the body is cut
at the declared Content-Length when `cutBody`. -/
def readMsg (data : Bytes) (cutBody : Bool) : Option WMsg :=
  let s := data.dropWhile (fun b => b == 13 || b == 10)
  match readLines (s.length + 1) s with
  | none => none
  | some ([], _) => none
  | some (st :: ls, rest) =>
    let hs := ls.map headerOf
    let body :=
      if cutBody then
        match (hs.find? (fun h => isCL h.1)).bind (fun h => atoi h.2) with
        | some n => rest.take n.toNat
        | none => rest
      else rest
    some { start := st, headers := hs, body := body }

/-- entries of all header lines of one class, in order: values split at ',' and trimmed -/
def stack (isClass : Bytes → Bool) (w : WMsg) : List Bytes :=
  (w.headers.filter (fun h => isClass h.1)).flatMap (fun h => (split 44 h.2).map trimSpace)

def others (w : WMsg) : List (Bytes × Bytes) := w.headers.filter (fun h => !isOwned h.1 && !isCL h.1)

/-- C01: what relaying must preserve. Returns the list of violations. -/
def relayViolations (input out : Bytes) : List String :=
  match readMsg input true, readMsg out false with
  | some wi, some wo =>
    (if wo.start == wi.start then [] else ["start-line-changed"]) ++
    (if others wo == others wi then [] else ["non-routing-headers-changed"]) ++
    (if wo.body == wi.body then [] else ["body-changed"]) ++
    (match wo.headers.filter (fun h => isCL h.1) with
     | [h] => if h.2 == natToBytes wo.body.length then [] else ["content-length-value-wrong"]
     | _ => ["not-exactly-one-content-length"])
  | none, _ => ["input-unreadable"]
  | _, none => ["relayed-message-unreadable"]

/-- class representative of a header name for the spelling-insensitive comparison of C17 -/
def canonName (n : Bytes) : Bytes :=
  let l := lowerName n
  let tbl : List (Bytes × Bytes) :=
    [(str "a", str "accept-contact"), (str "b", str "referred-by"), (str "c", str "content-type"),
     (str "e", str "content-encoding"), (str "f", str "from"), (str "i", str "call-id"), (str "k", str "supported"),
     (str "l", str "content-length"), (str "m", str "contact"), (str "o", str "event"), (str "r", str "refer-to"),
     (str "s", str "subject"), (str "t", str "to"), (str "u", str "allow-events"), (str "v", str "via")]
  ((tbl.find? (fun e => e.1 == l)).map (·.2)).getD l

/-- C17 observation of one relayed message: independent of spelling and list layout -/
def obsNormal (out : Bytes) : Option (Bytes × List Bytes × List Bytes × List Bytes × List (Bytes × Bytes) × Bytes) :=
  (readMsg out false).map fun w =>
    (w.start, stack isViaName w, stack isRouteName w, stack isRRName w,
     (others w).map (fun h => (canonName h.1, h.2)), w.body)

end Spec
